/-
  Lemmas for C14 about the std constant classes (`HugrVerif/Std/Consts.lean`), on top of
  `Proofs/ValSpec.lean` (specification) and `Proofs/ValCodec.lean` (value codec).
-/
import HugrVerif.Proofs.ValSpec
import HugrVerif.Proofs.ValCodec
import HugrVerif.Std.Consts
import HugrVerif.ConstOps

set_option linter.unusedSimpArgs false
set_option linter.unusedVariables false

namespace HugrVerif
open Ty Codec

namespace Codec
open Value

/-! ### the normal form encodes to the same document -/

mutual
  theorem encVal_norm : ∀ (v : Value), encVal (Value.norm v) = encVal v
    | .sum tag typ vals => by simp only [Value.norm, encVal, encTy_norm, encVals_normList vals]
    | .tuple vals => by simp only [Value.norm, encVal, encVals_normList vals]
    | .function i o r body => by simp only [Value.norm, encVal]
    | .ext name typ payload exts => by simp only [Value.norm, encVal, encTy_norm]
  theorem encVals_normList : ∀ (vs : List Value), encVals (normList vs) = encVals vs
    | [] => rfl
    | v :: vs => by simp only [normList, encVals, encVal_norm v, encVals_normList vs]
end

end Codec

namespace StdConsts
open Value

/-- `collPayload` succeeds exactly when the elements and the element type can be serialised, and is
    then the object holding the complete encodings. -/
theorem collPayload_ok (vs : List Value) (ty : Ty) (p : Json) :
    collPayload vs ty = .ok p ↔
      ∃ js jt, encVals vs = .ok js ∧ isPoly ty = false ∧ encTy ty = .ok jt ∧
        p = .obj [("values", .arr js), ("typ", jt)] := by
  unfold collPayload
  cases hv : encVals vs with
  | error e => simp [bind, Except.bind]
  | ok js =>
    cases hp : isPoly ty with
    | true => simp [bind, Except.bind, pure, Except.pure, throw, throwThe, MonadExceptOf.throw]
    | false =>
      cases ht : encTy ty with
      | error e => simp [bind, Except.bind, pure, Except.pure]
      | ok jt => simp [bind, Except.bind, pure, Except.pure, eq_comm]

theorem arrayVal_ok (vs : List Value) (ty : Ty) (v : Value) :
    arrayVal vs ty = .ok v ↔
      ∃ p, collPayload vs ty = .ok p ∧ v = .ext "ArrayValue" (arrayT vs.length ty) p [Gen.StdValDefs.arrayExt] := by
  unfold arrayVal
  cases collPayload vs ty <;> simp [bind, Except.bind, pure, Except.pure, eq_comm]

theorem listVal_ok (vs : List Value) (ty : Ty) (v : Value) :
    listVal vs ty = .ok v ↔
      ∃ p, collPayload vs ty = .ok p ∧ v = .ext "ListValue" (listT ty) p [Gen.StdValDefs.listExt] := by
  unfold listVal
  cases collPayload vs ty <;> simp [bind, Except.bind, pure, Except.pure, eq_comm]

theorem staticArrayVal_ok (vs : List Value) (ty : Ty) (name : String) (v : Value) :
    staticArrayVal vs ty name = .ok v ↔
      Ty.bound ty = .ok .copyable ∧ ∃ p, collPayload vs ty = .ok p ∧
        v = .ext "StaticArrayValue" (staticArrayT ty) (.obj [("value", p), ("name", .str name)])
          [Gen.StdValDefs.staticArrayExt] := by
  unfold staticArrayVal
  cases hb : Ty.bound ty with
  | error e => simp [bind, Except.bind, pure, Except.pure, throw, throwThe, MonadExceptOf.throw]
  | ok b =>
    cases b with
    | any => simp [bind, Except.bind, pure, Except.pure, throw, throwThe, MonadExceptOf.throw]
    | copyable =>
      cases collPayload vs ty <;> simp [bind, Except.bind, pure, Except.pure, eq_comm]

/-- `StaticArrayVal` with a non-copyable element type raises `ValueError`. -/
theorem staticArrayVal_valueError (vs : List Value) (ty : Ty) (name : String) (h : Ty.bound ty = .ok .any) :
    staticArrayVal vs ty name = .error .valueError := by
  unfold staticArrayVal
  rw [h]; rfl

/-! ### constants built by expressions -/

mutual
  /-- Well-formed arguments of a constant-building expression: every general `Sum(tag, typ, vals)`
      in it has its tag in range and fields of the tagged row's types; `UnitSum(tag, size)` has
      `tag < size`; an extension constant reports a single type.  Nothing is asked of the helpers
      beyond their fields being well-formed, and nothing of the std classes. -/
  def CExpr.ArgsOk : CExpr → Prop
    | .sum tag typ vals => (∀ vs, CExpr.evalList vals = .ok vs → SumArgsOk tag typ vs) ∧ CExpr.ArgsOkList vals
    | .tuple vals => CExpr.ArgsOkList vals
    | .some vals => CExpr.ArgsOkList vals
    | .left vals _ => CExpr.ArgsOkList vals
    | .right _ vals => CExpr.ArgsOkList vals
    | .unitSum tag size => tag < size
    | .ext _ typ _ _ => typ.isRowVar = false
    | _ => True
  def CExpr.ArgsOkList : List CExpr → Prop
    | [] => True
    | e :: es => CExpr.ArgsOk e ∧ CExpr.ArgsOkList es
end

theorem sum_inhabits_of_args (tag : Nat) (typ : Ty) (vs : List Value)
    (hargs : SumArgsOk tag typ vs) (hvs : ∀ v ∈ vs, Inhabits v (typeOf v)) :
    Inhabits (.sum tag typ vs) typ := by
  obtain ⟨row, hv, hs⟩ := hargs
  exact ⟨Ty.Same.refl _, row, hv, (inhabitsRow_iff_aux vs row).2 ⟨(validList_iff vs).2 hvs, hs⟩⟩

theorem evalList_cons_ok (e : CExpr) (es : List CExpr) (ws : List Value) :
    CExpr.evalList (e :: es) = .ok ws ↔ ∃ v vs, e.eval = .ok v ∧ CExpr.evalList es = .ok vs ∧ ws = v :: vs := by
  simp only [CExpr.evalList, bind, Except.bind]
  cases e.eval with
  | error x => simp
  | ok v =>
    cases CExpr.evalList es with
    | error x => simp
    | ok vs => simp [pure, Except.pure, eq_comm]

theorem ext_inhabits (name : String) (typ : Ty) (p : Json) (exts : List String) (h : typ.isRowVar = false) :
    Inhabits (.ext name typ p exts) typ := ⟨Ty.Same.refl _, h⟩

mutual
  theorem eval_inhabits : ∀ (e : CExpr) (v : Value), e.eval = .ok v → e.ArgsOk → Inhabits v (typeOf v)
    | .sum tag typ vals, v, h, ha => by
      simp only [CExpr.eval, bind, Except.bind] at h
      cases hl : CExpr.evalList vals with
      | error x => rw [hl] at h; cases h
      | ok vs =>
        rw [hl] at h
        simp only [pure, Except.pure, Except.ok.injEq] at h
        subst h
        exact sum_inhabits_of_args tag typ vs (ha.1 vs hl) (evalList_inhabits vals vs hl ha.2)
    | .tuple vals, v, h, ha => by
      simp only [CExpr.eval, bind, Except.bind] at h
      cases hl : CExpr.evalList vals with
      | error x => rw [hl] at h; cases h
      | ok vs =>
        rw [hl] at h
        simp only [pure, Except.pure, Except.ok.injEq] at h
        subst h
        exact ⟨typesOf vs, Ty.Same.refl _, inhabitsRow_typesOf vs (evalList_inhabits vals vs hl ha)⟩
    | .some vals, v, h, ha => by
      simp only [CExpr.eval, bind, Except.bind] at h
      cases hl : CExpr.evalList vals with
      | error x => rw [hl] at h; cases h
      | ok vs =>
        rw [hl] at h
        simp only [pure, Except.pure, Except.ok.injEq] at h
        subst h
        exact ⟨Ty.Same.refl _, typesOf vs, rfl, inhabitsRow_typesOf vs (evalList_inhabits vals vs hl ha)⟩
    | .none tys, v, h, _ => by
      simp only [CExpr.eval, pure, Except.pure, Except.ok.injEq] at h
      subst h
      exact ⟨Ty.Same.refl _, [], rfl, trivial⟩
    | .left vals r, v, h, ha => by
      simp only [CExpr.eval, bind, Except.bind] at h
      cases hl : CExpr.evalList vals with
      | error x => rw [hl] at h; cases h
      | ok vs =>
        rw [hl] at h
        simp only [pure, Except.pure, Except.ok.injEq] at h
        subst h
        exact ⟨Ty.Same.refl _, typesOf vs, rfl, inhabitsRow_typesOf vs (evalList_inhabits vals vs hl ha)⟩
    | .right l vals, v, h, ha => by
      simp only [CExpr.eval, bind, Except.bind] at h
      cases hl : CExpr.evalList vals with
      | error x => rw [hl] at h; cases h
      | ok vs =>
        rw [hl] at h
        simp only [pure, Except.pure, Except.ok.injEq] at h
        subst h
        exact ⟨Ty.Same.refl _, typesOf vs, rfl, inhabitsRow_typesOf vs (evalList_inhabits vals vs hl ha)⟩
    | .unitSum tag size, v, h, ha => by
      simp only [CExpr.eval, pure, Except.pure, Except.ok.injEq] at h
      subst h
      simp only [CExpr.ArgsOk] at ha
      exact ⟨Ty.Same.refl _, [], by simp [Ty.variant, ha], trivial⟩
    | .bool b, v, h, _ => by
      simp only [CExpr.eval, pure, Except.pure, Except.ok.injEq] at h
      subst h
      cases b <;> exact ⟨Ty.Same.refl _, [], by simp [Ty.variant], trivial⟩
    | .unit, v, h, _ => by
      simp only [CExpr.eval, pure, Except.pure, Except.ok.injEq] at h
      subst h
      exact ⟨Ty.Same.refl _, [], by simp [Ty.variant], trivial⟩
    | .function i o r body, v, h, _ => by
      simp only [CExpr.eval, pure, Except.pure, Except.ok.injEq] at h
      subst h
      exact Ty.Same.refl _
    | .ext name typ payload exts, v, h, ha => by
      simp only [CExpr.eval, pure, Except.pure, Except.ok.injEq] at h
      subst h
      exact ext_inhabits _ _ _ _ ha
    | .intVal x w, v, h, _ => by
      simp only [CExpr.eval, pure, Except.pure, Except.ok.injEq] at h
      subst h
      exact ext_inhabits _ _ _ _ rfl
    | .floatVal lit, v, h, _ => by
      simp only [CExpr.eval, pure, Except.pure, Except.ok.injEq] at h
      subst h
      exact ext_inhabits _ _ _ _ rfl
    | .stringVal str, v, h, _ => by
      simp only [CExpr.eval, pure, Except.pure, Except.ok.injEq] at h
      subst h
      exact ext_inhabits _ _ _ _ rfl
    | .arrayVal vals ty, v, h, _ => by
      simp only [CExpr.eval, bind, Except.bind] at h
      cases hl : CExpr.evalList vals with
      | error x => rw [hl] at h; cases h
      | ok vs =>
        rw [hl] at h
        obtain ⟨p, _, rfl⟩ := (arrayVal_ok vs ty v).1 h
        exact ext_inhabits _ _ _ _ rfl
    | .listVal vals ty, v, h, _ => by
      simp only [CExpr.eval, bind, Except.bind] at h
      cases hl : CExpr.evalList vals with
      | error x => rw [hl] at h; cases h
      | ok vs =>
        rw [hl] at h
        obtain ⟨p, _, rfl⟩ := (listVal_ok vs ty v).1 h
        exact ext_inhabits _ _ _ _ rfl
    | .staticArrayVal vals ty name, v, h, _ => by
      simp only [CExpr.eval, bind, Except.bind] at h
      cases hl : CExpr.evalList vals with
      | error x => rw [hl] at h; cases h
      | ok vs =>
        rw [hl] at h
        obtain ⟨_, p, _, rfl⟩ := (staticArrayVal_ok vs ty name v).1 h
        exact ext_inhabits _ _ _ _ rfl
  theorem evalList_inhabits : ∀ (es : List CExpr) (vs : List Value), CExpr.evalList es = .ok vs →
      CExpr.ArgsOkList es → ∀ v ∈ vs, Inhabits v (typeOf v)
    | [], vs, h, _ => by
      simp only [CExpr.evalList, pure, Except.pure, Except.ok.injEq] at h
      subst h; intro v hv; cases hv
    | e :: es, ws, h, ha => by
      obtain ⟨v, vs, h1, h2, rfl⟩ := (evalList_cons_ok e es ws).1 h
      intro w hw
      rcases List.mem_cons.1 hw with rfl | hw
      · exact eval_inhabits e w h1 ha.1
      · exact evalList_inhabits es vs h2 ha.2 w hw
end

end StdConsts
end HugrVerif
