/-
  Store-level lemmas (C04/C08): how each mutator acts on `links()` and on the node table.
-/
import HugrVerif.Proofs.StoreLinks

namespace HugrVerif.Store
open Py HugrVerif

variable {Ω μ : Type}

/-! ### node table frame lemmas -/

theorem getNode_setNode (s : Store Ω μ) (i j : Nat) (d : Option (NodeData Ω μ)) (hi : i < s.nodes.length) :
    getNode (setNode s i d) j = if j = i then (match d with | some x => .ok x | none => .error .keyError) else getNode s j := by
  unfold getNode setNode
  by_cases hji : j = i
  · subst hji
    simp [List.getElem?_set, hi]
    cases d <;> rfl
  · have : ¬ i = j := fun e => hji e.symm
    simp [List.getElem?_set, hji, this]

theorem getNode_lt (s : Store Ω μ) (i : Nat) (d : NodeData Ω μ) (h : getNode s i = .ok d) : i < s.nodes.length := by
  unfold getNode at h
  cases hg : s.nodes[i]? with
  | none => simp [hg] at h
  | some x => exact (List.getElem?_eq_some_iff.mp hg).1

theorem modifyNode_ok (s s' : Store Ω μ) (i : Nat) (f : NodeData Ω μ → NodeData Ω μ)
    (h : modifyNode s i f = .ok s') :
    ∃ d, getNode s i = .ok d ∧ s' = setNode s i (some (f d)) := by
  unfold modifyNode at h
  cases hg : getNode s i with
  | error e => simp [hg, bind, Except.bind] at h
  | ok d =>
    simp [hg, bind, Except.bind, pure, Except.pure] at h
    exact ⟨d, rfl, h.symm⟩

theorem modifyNode_links (s s' : Store Ω μ) (i : Nat) (f : NodeData Ω μ → NodeData Ω μ)
    (h : modifyNode s i f = .ok s') : s'.links = s.links ∧ s'.free = s.free ∧ s'.root = s.root ∧
      s'.nodes.length = s.nodes.length := by
  obtain ⟨d, _, rfl⟩ := modifyNode_ok s s' i f h
  simp [setNode]

theorem modifyNode_get (s s' : Store Ω μ) (i j : Nat) (f : NodeData Ω μ → NodeData Ω μ)
    (h : modifyNode s i f = .ok s') :
    getNode s' j = if j = i then (getNode s i).map f else getNode s j := by
  obtain ⟨d, hd, rfl⟩ := modifyNode_ok s s' i f h
  rw [getNode_setNode s i j _ (getNode_lt s i d hd)]
  by_cases hji : j = i
  · simp [hji, hd, Except.map]
  · simp [hji]

/-! ### `links()` -/

theorem linksList_eq (s : Store Ω μ) : linksList s = portPairs s.links := by
  unfold linksList portPairs
  apply List.map_congr_left
  intro e _; rfl

/-- `has_link(src, dst)` is membership in `links()`. -/
theorem hasLink_iff (s : Store Ω μ) (h : LInv s.links) (src dst : Port) :
    hasLink s src dst = true ↔ (src, dst) ∈ linksList s := by
  unfold hasLink linkedOut
  rw [linksList_eq, mem_portPairs_iff, List.contains_iff_mem]
  exact (linkedFrom_perm s.links.fwd h.inv.ndF h.cF src.1 src.2).mem_iff

/-- `linked_ports` of an out-port: a permutation of the targets of that port in `links()`. -/
theorem linkedOut_perm (s : Store Ω μ) (h : LInv s.links) (p : Port) :
    (linkedOut s p).Perm (((linksList s).filter (fun l => decide (l.1 = p))).map (·.2)) := by
  unfold linkedOut
  refine (linkedFrom_perm s.links.fwd h.inv.ndF h.cF p.1 p.2).trans ?_
  rw [linksList_eq]
  unfold linksOn entriesOn portPairs
  rw [List.filter_map, List.map_map]
  have : (fun e : SubPort × SubPort => decide (e.1.node = p.1 ∧ e.1.offset = p.2)) =
      ((fun l : Port × Port => decide (l.1 = p)) ∘ fun e : SubPort × SubPort => (e.1.port, e.2.port)) := by
    funext e
    simp [SubPort.port, Prod.ext_iff]
  rw [this]
  exact List.Perm.refl _

theorem addLink_ok (s s' : Store Ω μ) (src dst : Port) (h : addLink s src dst = .ok s') :
    s'.links = addLinkMap s.links src dst ∧ s'.free = s.free ∧ s'.root = s.root ∧
      s'.nodes.length = s.nodes.length := by
  unfold addLink at h
  simp only [bind, Except.bind] at h
  split at h
  · cases h
  · rename_i s1 h1
    obtain ⟨a1, a2, a3, a4⟩ := modifyNode_links _ _ _ _ h1
    obtain ⟨b1, b2, b3, b4⟩ := modifyNode_links _ _ _ _ h
    refine ⟨?_, ?_, ?_, ?_⟩
    · rw [b1, a1]; rfl
    · rw [b2, a2]
    · rw [b3, a3]
    · rw [b4, a4]

/-- **An added link is appended to `links()` exactly once.** -/
theorem addLink_links (s s' : Store Ω μ) (hl : LInv s.links) (src dst : Port)
    (h : addLink s src dst = .ok s') :
    linksList s' = linksList s ++ [(src, dst)] ∧ LInv s'.links := by
  obtain ⟨e, _⟩ := addLink_ok s s' src dst h
  obtain ⟨ks, kd, e2, hinv⟩ := addLinkMap_spec s.links hl src dst
  rw [linksList_eq, linksList_eq, e]
  refine ⟨?_, hinv⟩
  rw [e2]; simp [portPairs, SubPort.port]

theorem deleteLink_ok (s s' : Store Ω μ) (src dst : Port) (h : deleteLink s src dst = .ok s') :
    ∃ m', deleteLinkMap s.links src dst = .ok m' ∧ s' = { s with links := m' } := by
  unfold deleteLink at h
  simp only [bind, Except.bind] at h
  split at h
  · cases h
  · rename_i m' hm
    simp [pure, Except.pure] at h
    exact ⟨m', hm, h.symm⟩

/-- **Deleting one link removes exactly that one** (and nothing when there is no such link);
    `delete_link` never raises in a state satisfying the link invariant. -/
theorem deleteLink_links (s : Store Ω μ) (hl : LInv s.links) (src dst : Port) :
    ∃ s', deleteLink s src dst = .ok s' ∧ LInv s'.links ∧ s'.nodes = s.nodes ∧ s'.free = s.free ∧
      (((src, dst) ∈ linksList s ∧ (linksList s).Perm ((src, dst) :: linksList s')) ∨
       ((src, dst) ∉ linksList s ∧ s' = s)) := by
  obtain ⟨m', e, hinv, hcase⟩ := deleteLinkMap_spec s.links hl src dst
  refine ⟨{ s with links := m' }, ?_, hinv, rfl, rfl, ?_⟩
  · unfold deleteLink; simp [e, bind, Except.bind, pure, Except.pure]
  · simp only [linksList_eq]
    rcases hcase with ⟨h1, h2⟩ | ⟨h1, h2⟩
    · exact Or.inl ⟨h1, h2⟩
    · refine Or.inr ⟨h1, ?_⟩
      subst h2; rfl

/-! ### the in-port view -/

theorem bck_perm (m : LMap) (h : BiMap.Inv m) : m.bck.Perm (m.fwd.map Prod.swap) := by
  have n1 : m.bck.Nodup := Dict.nodup_of_nodup_map (fun e : SubPort × SubPort => e.1) m.bck h.ndB
  have n2 : (m.fwd.map Prod.swap).Nodup := by
    apply Dict.nodup_of_nodup_map (·.2)
    simpa [List.map_map, Function.comp_def, Dict.NodupKeys, Dict.keys] using h.ndF
  rw [List.perm_ext_iff_of_nodup n1 n2]
  rintro ⟨v, k⟩
  rw [← Dict.get_some_iff_mem v k m.bck h.ndB]
  simp only [List.mem_map, Prod.swap]
  constructor
  · intro hb
    exact ⟨(k, v), (Dict.get_some_iff_mem k v m.fwd h.ndF).mp ((h.inv k v).mpr hb), rfl⟩
  · rintro ⟨⟨a, b⟩, hm, he⟩
    simp at he; obtain ⟨rfl, rfl⟩ := he
    exact (h.inv _ _).mp ((Dict.get_some_iff_mem _ _ m.fwd h.ndF).mpr hm)

/-- `linked_ports` of an in-port: a permutation of the sources of that port in `links()`. -/
theorem linkedIn_perm (s : Store Ω μ) (h : LInv s.links) (p : Port) :
    (linkedIn s p).Perm (((linksList s).filter (fun l => decide (l.2 = p))).map (·.1)) := by
  unfold linkedIn
  refine (linkedFrom_perm s.links.bck h.inv.ndB h.cB p.1 p.2).trans ?_
  rw [linksList_eq]
  unfold linksOn entriesOn portPairs
  have hp := bck_perm s.links h.inv
  refine ((hp.filter _).map _).trans ?_
  rw [List.filter_map, List.map_map, List.filter_map, List.map_map]
  have : ((fun e : SubPort × SubPort => decide (e.1.node = p.1 ∧ e.1.offset = p.2)) ∘ Prod.swap) =
      ((fun l : Port × Port => decide (l.2 = p)) ∘ fun e : SubPort × SubPort => (e.1.port, e.2.port)) := by
    funext e
    simp [SubPort.port, Prod.ext_iff]
  rw [this]
  exact List.Perm.refl _

/-! ### deleting all links of a port, of a node -/

theorem deleteAll_spec (mk : Port → Port × Port) : ∀ (qs : List Port) (s : Store Ω μ) (R : List (Port × Port)),
    LInv s.links → (linksList s).Perm (qs.map mk ++ R) →
    ∃ s', deleteAll s mk qs = .ok s' ∧ LInv s'.links ∧ s'.nodes = s.nodes ∧ s'.free = s.free ∧
      s'.root = s.root ∧ (linksList s').Perm R := by
  intro qs
  induction qs with
  | nil =>
    intro s R hl hp
    exact ⟨s, rfl, hl, rfl, rfl, rfl, by simpa using hp⟩
  | cons q qs ih =>
    intro s R hl hp
    obtain ⟨s1, e1, hl1, hn1, hf1, hcase⟩ := deleteLink_links s hl (mk q).1 (mk q).2
    have hmem : ((mk q).1, (mk q).2) ∈ linksList s := hp.mem_iff.mpr (by simp)
    rcases hcase with ⟨_, hperm⟩ | ⟨hno, _⟩
    · have : (linksList s1).Perm (qs.map mk ++ R) := by
        have h2 : (((mk q).1, (mk q).2) :: linksList s1).Perm (((mk q).1, (mk q).2) :: (qs.map mk ++ R)) := by
          refine hperm.symm.trans ?_
          simpa using hp
        exact List.Perm.cons_inv h2
      obtain ⟨s', e', r1, r2, r3, r4, r5⟩ := ih s1 R hl1 this
      have hr1 : s1.root = s.root := by
        obtain ⟨m', _, rfl⟩ := deleteLink_ok s s1 _ _ e1; rfl
      refine ⟨s', ?_, r1, r2.trans hn1, r3.trans hf1, r4.trans hr1, r5⟩
      show (do let (a, b) := mk q; let s ← deleteLink s a b; deleteAll s mk qs) = .ok s'
      simp only [e1, bind, Except.bind]
      exact e'
    · exact absurd hmem hno

theorem filter_split {α : Type} (L : List α) (P : α → Bool) :
    L.Perm (L.filter P ++ L.filter (fun x => !P x)) := (List.filter_append_perm P L).symm

/-- After the in-port loop over `offs`, exactly the links into `(node, off)`, `off ∈ offs`, are gone. -/
theorem deleteInLinks_spec (node : Nat) : ∀ (offs : List Int) (s : Store Ω μ), LInv s.links →
    ∃ s', deleteInLinks s node offs = .ok s' ∧ LInv s'.links ∧ s'.nodes = s.nodes ∧ s'.free = s.free ∧
      s'.root = s.root ∧
      (linksList s').Perm ((linksList s).filter (fun l => !(decide (l.2.1 = node) && offs.contains l.2.2))) := by
  intro offs
  induction offs with
  | nil =>
    intro s hl
    exact ⟨s, rfl, hl, rfl, rfl, rfl, List.Perm.of_eq (List.filter_eq_self.mpr (by intro a _; simp)).symm⟩
  | cons off offs ih =>
    intro s hl
    generalize hpdef : ((node, off) : Port) = p
    have hsplit := filter_split (linksList s) (fun l => decide (l.2 = p))
    have hpeers := linkedIn_perm s hl p
    have hmap : ((linkedIn s p).map (fun out => (out, p))).Perm ((linksList s).filter (fun l => decide (l.2 = p))) := by
      refine (hpeers.map _).trans ?_
      rw [List.map_map]
      have : ∀ l ∈ (linksList s).filter (fun l => decide (l.2 = p)),
          ((fun out => (out, p)) ∘ (·.1)) l = l := by
        intro l hlm
        have := (List.mem_filter.mp hlm).2
        simp at this
        simp [← this]
      rw [List.map_congr_left this]; simp
    obtain ⟨s1, e1, hl1, hn1, hf1, hr1, hp1⟩ := deleteAll_spec (fun out => (out, p)) (linkedIn s p) s _ hl
      (hsplit.trans (List.Perm.append_right _ hmap.symm))
    obtain ⟨s', e', r1, r2, r3, r4, r5⟩ := ih s1 hl1
    refine ⟨s', ?_, r1, r2.trans hn1, r3.trans hf1, r4.trans hr1, ?_⟩
    · unfold deleteInLinks
      rw [hpdef]
      simp only [e1, bind, Except.bind]; exact e'
    · refine r5.trans ?_
      refine (hp1.filter _).trans ?_
      rw [List.filter_filter]
      apply List.Perm.of_eq
      apply List.filter_congr
      intro l _
      subst hpdef
      obtain ⟨a, n, o⟩ := l
      by_cases h1 : n = node <;> by_cases h2 : o = off <;> simp [h1, h2]

theorem linkedOut_map_perm (s : Store Ω μ) (hl : LInv s.links) (p : Port) :
    ((linkedOut s p).map (fun inp => (p, inp))).Perm ((linksList s).filter (fun l => decide (l.1 = p))) := by
  refine ((linkedOut_perm s hl p).map _).trans ?_
  rw [List.map_map]
  have : ∀ l ∈ (linksList s).filter (fun l => decide (l.1 = p)),
      ((fun inp => (p, inp)) ∘ (·.2)) l = l := by
    intro l hlm
    have := (List.mem_filter.mp hlm).2
    simp at this
    simp [← this]
  rw [List.map_congr_left this]; simp

theorem deleteOutLinks_spec (node : Nat) : ∀ (offs : List Int) (s : Store Ω μ), LInv s.links →
    ∃ s', deleteOutLinks s node offs = .ok s' ∧ LInv s'.links ∧ s'.nodes = s.nodes ∧ s'.free = s.free ∧
      s'.root = s.root ∧
      (linksList s').Perm ((linksList s).filter (fun l => !(decide (l.1.1 = node) && offs.contains l.1.2))) := by
  intro offs
  induction offs with
  | nil =>
    intro s hl
    exact ⟨s, rfl, hl, rfl, rfl, rfl, List.Perm.of_eq (List.filter_eq_self.mpr (by intro a _; simp)).symm⟩
  | cons off offs ih =>
    intro s hl
    generalize hpdef : ((node, off) : Port) = p
    have hsplit := filter_split (linksList s) (fun l => decide (l.1 = p))
    obtain ⟨s1, e1, hl1, hn1, hf1, hr1, hp1⟩ := deleteAll_spec (fun inp => (p, inp)) (linkedOut s p) s _ hl
      (hsplit.trans (List.Perm.append_right _ (linkedOut_map_perm s hl p).symm))
    obtain ⟨s', e', r1, r2, r3, r4, r5⟩ := ih s1 hl1
    refine ⟨s', ?_, r1, r2.trans hn1, r3.trans hf1, r4.trans hr1, ?_⟩
    · unfold deleteOutLinks
      rw [hpdef]
      simp only [e1, bind, Except.bind]; exact e'
    · refine r5.trans ?_
      refine (hp1.filter _).trans ?_
      rw [List.filter_filter]
      apply List.Perm.of_eq
      apply List.filter_congr
      intro l _
      subst hpdef
      obtain ⟨⟨n, o⟩, b⟩ := l
      by_cases h1 : n = node <;> by_cases h2 : o = off <;> simp [h1, h2]

/-! ### port-count bound and liveness of link endpoints -/

/-- Every endpoint of every link is a live node, its offset is `≥ -1`, and the node's reported
    port count is at least the offset plus one. -/
def PortBound (s : Store Ω μ) : Prop :=
  ∀ l ∈ linksList s,
    (∃ d, getNode s l.1.1 = .ok d ∧ -1 ≤ l.1.2 ∧ l.1.2 + 1 ≤ (d.numOuts : Int)) ∧
    (∃ d, getNode s l.2.1 = .ok d ∧ -1 ≤ l.2.2 ∧ l.2.2 + 1 ≤ (d.numInps : Int))

/-- Port counts of nodes that still carry links did not shrink. -/
theorem portBound_mono (s s' : Store Ω μ) (h : PortBound s)
    (hsub : ∀ l ∈ linksList s', l ∈ linksList s)
    (hn : ∀ j d, getNode s j = .ok d → (∃ l ∈ linksList s', l.1.1 = j ∨ l.2.1 = j) →
      ∃ d', getNode s' j = .ok d' ∧ d.numOuts ≤ d'.numOuts ∧ d.numInps ≤ d'.numInps) :
    PortBound s' := by
  intro l hl
  obtain ⟨⟨da, ha1, ha2, ha3⟩, ⟨db, hb1, hb2, hb3⟩⟩ := h l (hsub l hl)
  obtain ⟨da', h1, h2, _⟩ := hn _ da ha1 ⟨l, hl, Or.inl rfl⟩
  obtain ⟨db', h3, _, h4⟩ := hn _ db hb1 ⟨l, hl, Or.inr rfl⟩
  exact ⟨⟨da', h1, ha2, by omega⟩, ⟨db', h3, hb2, by omega⟩⟩

theorem mem_offsetsFromMinusOne (n : Nat) (x : Int) :
    x ∈ offsetsFromMinusOne n ↔ -1 ≤ x ∧ x < n := by
  unfold offsetsFromMinusOne
  simp only [List.mem_map, List.mem_range]
  constructor
  · rintro ⟨k, hk, rfl⟩; omega
  · intro ⟨h1, h2⟩
    exact ⟨(x + 1).toNat, by omega, by omega⟩

/-- Same node, port counts possibly larger. -/
structure NodeGrow (d d' : NodeData Ω μ) : Prop where
  op : d'.op = d.op
  parent : d'.parent = d.parent
  children : d'.children = d.children
  md : d'.md = d.md
  outs : d.numOuts ≤ d'.numOuts
  inps : d.numInps ≤ d'.numInps

theorem NodeGrow.refl (d : NodeData Ω μ) : NodeGrow d d := ⟨rfl, rfl, rfl, rfl, Nat.le_refl _, Nat.le_refl _⟩
theorem NodeGrow.trans {a b c : NodeData Ω μ} (h1 : NodeGrow a b) (h2 : NodeGrow b c) : NodeGrow a c :=
  ⟨h2.op.trans h1.op, h2.parent.trans h1.parent, h2.children.trans h1.children, h2.md.trans h1.md,
   Nat.le_trans h1.outs h2.outs, Nat.le_trans h1.inps h2.inps⟩

/-- Same live nodes, same data except that port counts may have grown. -/
structure StoreGrow (s s' : Store Ω μ) : Prop where
  fwd : ∀ j d, getNode s j = .ok d → ∃ d', getNode s' j = .ok d' ∧ NodeGrow d d'
  bwd : ∀ j d', getNode s' j = .ok d' → ∃ d, getNode s j = .ok d

theorem StoreGrow.refl (s : Store Ω μ) : StoreGrow s s :=
  ⟨fun _ d h => ⟨d, h, NodeGrow.refl d⟩, fun _ d h => ⟨d, h⟩⟩
theorem StoreGrow.trans {a b c : Store Ω μ} (h1 : StoreGrow a b) (h2 : StoreGrow b c) : StoreGrow a c := by
  refine ⟨?_, ?_⟩
  · intro j d hd
    obtain ⟨d1, e1, g1⟩ := h1.fwd j d hd
    obtain ⟨d2, e2, g2⟩ := h2.fwd j d1 e1
    exact ⟨d2, e2, g1.trans g2⟩
  · intro j d hd
    obtain ⟨d1, e1⟩ := h2.bwd j d hd
    exact h1.bwd j d1 e1

theorem modifyNode_grow (s s' : Store Ω μ) (i : Nat) (f : NodeData Ω μ → NodeData Ω μ)
    (hf : ∀ d, NodeGrow d (f d)) (h : modifyNode s i f = .ok s') : StoreGrow s s' := by
  have g := fun j => modifyNode_get s s' i j f h
  obtain ⟨di, hdi, _⟩ := modifyNode_ok s s' i f h
  refine ⟨?_, ?_⟩
  · intro j d hd
    rw [g j]
    by_cases hji : j = i
    · subst hji; simp only [if_true, hd, Except.map]; exact ⟨_, rfl, hf d⟩
    · simp only [hji, if_false]; exact ⟨d, hd, NodeGrow.refl d⟩
  · intro j d' hd'
    rw [g j] at hd'
    by_cases hji : j = i
    · subst hji; exact ⟨di, hdi⟩
    · simp only [hji, if_false] at hd'; exact ⟨d', hd'⟩

theorem addLink_nodes (s s' : Store Ω μ) (src dst : Port) (h : addLink s src dst = .ok s') :
    StoreGrow s s' ∧
    (∃ d, getNode s' src.1 = .ok d ∧ offsetPlusOne src.2 ≤ d.numOuts) ∧
    (∃ d, getNode s' dst.1 = .ok d ∧ offsetPlusOne dst.2 ≤ d.numInps) := by
  unfold addLink at h
  simp only [bind, Except.bind] at h
  split at h
  · cases h
  · rename_i s1 h1
    have G1 := by
      refine modifyNode_grow _ _ _ _ ?_ h1
      intro d; exact ⟨rfl, rfl, rfl, rfl, Nat.le_max_left _ _, Nat.le_refl _⟩
    have G2 : StoreGrow s1 s' := by
      refine modifyNode_grow _ _ _ _ ?_ h
      intro d; exact ⟨rfl, rfl, rfl, rfl, Nat.le_refl _, Nat.le_max_left _ _⟩
    have g1 := modifyNode_get _ _ src.1 src.1 _ h1
    have g2 := modifyNode_get _ _ dst.1 dst.1 _ h
    obtain ⟨ds, hds, _⟩ := modifyNode_ok _ _ _ _ h1
    obtain ⟨dd, hdd, _⟩ := modifyNode_ok _ _ _ _ h
    refine ⟨?_, ?_, ?_⟩
    · refine StoreGrow.trans ⟨?_, ?_⟩ (G1.trans G2)
      · intro j d hd; exact ⟨d, hd, NodeGrow.refl d⟩
      · intro j d hd; exact ⟨d, hd⟩
    · simp only [if_true, hds, Except.map] at g1
      obtain ⟨d2, e2, gr⟩ := G2.fwd _ _ g1
      refine ⟨d2, e2, Nat.le_trans ?_ gr.outs⟩
      exact Nat.le_max_right _ _
    · simp only [if_true, hdd, Except.map] at g2
      exact ⟨_, g2, Nat.le_max_right _ _⟩

end HugrVerif.Store
