/-
  The store invariant and its preservation by every mutator (C04), by induction over histories.
-/
import HugrVerif.Proofs.StoreNodes

namespace HugrVerif.Store
open Py HugrVerif

variable {Ω μ : Type}

/-- Invariant of every reachable store. -/
structure SInv (s : Store Ω μ) : Prop where
  links : LInv s.links
  bound : PortBound s
  free : FreeInv s

theorem linksList_congr (a b : Store Ω μ) (h : b.links = a.links) : linksList b = linksList a := by
  simp [linksList, h]

theorem offsetPlusOne_le (off : Int) (n : Nat) (h1 : -1 ≤ off) (h2 : offsetPlusOne off ≤ n) : off + 1 ≤ (n : Int) := by
  unfold offsetPlusOne at h2; omega

theorem sinv_addLink (s s' : Store Ω μ) (hs : SInv s) (src dst : Port) (h1 : -1 ≤ src.2) (h2 : -1 ≤ dst.2)
    (h : addLink s src dst = .ok s') : SInv s' := by
  obtain ⟨hl, hb, hf⟩ := hs
  obtain ⟨e, hl'⟩ := addLink_links s s' hl src dst h
  obtain ⟨G, ⟨ds, es, bs⟩, ⟨dd, ed, bd⟩⟩ := addLink_nodes s s' src dst h
  obtain ⟨_, fr, _, _⟩ := addLink_ok s s' src dst h
  refine ⟨hl', ?_, ?_⟩
  · intro l hlm
    rw [e] at hlm
    rcases List.mem_append.mp hlm with hm | hm
    · obtain ⟨⟨da, ha1, ha2, ha3⟩, ⟨db, hb1, hb2, hb3⟩⟩ := hb l hm
      obtain ⟨da', ea, ga⟩ := G.fwd _ da ha1
      obtain ⟨db', eb, gb⟩ := G.fwd _ db hb1
      have := ga.outs; have := gb.inps
      exact ⟨⟨da', ea, ha2, by omega⟩, ⟨db', eb, hb2, by omega⟩⟩
    · simp at hm; subst hm
      exact ⟨⟨ds, es, h1, offsetPlusOne_le _ _ h1 bs⟩, ⟨dd, ed, h2, offsetPlusOne_le _ _ h2 bd⟩⟩
  · -- free list: only live slots were rewritten
    refine ⟨?_, by rw [fr]; exact hf.nodup⟩
    intro j
    rw [fr, hf.iff j]
    constructor
    · intro hn
      cases hj : s'.nodes[j]? with
      | none =>
        exfalso
        have hlen := (addLink_ok s s' src dst h).2.2.2
        have : j < s.nodes.length := (List.getElem?_eq_some_iff.mp hn).1
        have : s'.nodes[j]? ≠ none := by
          intro hc; have := List.getElem?_eq_none_iff.mp hc; omega
        exact this hj
      | some x =>
        cases x with
        | none => rfl
        | some d' =>
          exfalso
          obtain ⟨d, hd⟩ := G.bwd j d' ((getNode_ok_iff s' j d').mpr hj)
          rw [(getNode_ok_iff s j d).mp hd] at hn; cases hn
    · intro hn
      cases hj : s.nodes[j]? with
      | none =>
        exfalso
        have hlen := (addLink_ok s s' src dst h).2.2.2
        have : j < s'.nodes.length := (List.getElem?_eq_some_iff.mp hn).1
        have := List.getElem?_eq_none_iff.mp hj; omega
      | some x =>
        cases x with
        | none => rfl
        | some d =>
          exfalso
          obtain ⟨d', hd', _⟩ := G.fwd j d ((getNode_ok_iff s j d).mpr hj)
          rw [(getNode_ok_iff s' j d').mp hd'] at hn; cases hn

theorem sinv_addOrderLink (s s' : Store Ω μ) (hs : SInv s) (src dst : Nat)
    (h : addOrderLink s src dst = .ok s') : SInv s' := by
  unfold addOrderLink at h
  split at h
  · simp [pure, Except.pure] at h; subst h; exact hs
  · exact sinv_addLink s s' hs (src, -1) (dst, -1) (by simp) (by simp) h

theorem sinv_deleteLink (s s' : Store Ω μ) (hs : SInv s) (src dst : Port)
    (h : deleteLink s src dst = .ok s') : SInv s' := by
  obtain ⟨hl, hb, hf⟩ := hs
  obtain ⟨s2, e2, hl2, hn2, hf2, hcase⟩ := deleteLink_links s hl src dst
  rw [h] at e2; injection e2 with e2; subst e2
  have hget : ∀ j, getNode s' j = getNode s j := by intro j; unfold getNode; rw [hn2]
  refine ⟨hl2, ?_, ?_⟩
  · refine portBound_mono s s' hb ?_ ?_
    · intro l hlm
      rcases hcase with ⟨_, hp⟩ | ⟨_, he⟩
      · exact hp.mem_iff.mpr (List.mem_cons_of_mem _ hlm)
      · rw [he] at hlm; exact hlm
    · intro j d hd _
      exact ⟨d, by rw [hget]; exact hd, Nat.le_refl _, Nat.le_refl _⟩
  · refine ⟨?_, by rw [hf2]; exact hf.nodup⟩
    intro j; rw [hf2, hn2]; exact hf.iff j

theorem sinv_addNodeRaw (s s' : Store Ω μ) (hs : SInv s) (op : Ω) (parent : Option Nat)
    (numOuts : Option Nat) (m : μ) (i : Nat) (h : addNodeRaw s op parent numOuts m = .ok (s', i)) :
    SInv s' := by
  obtain ⟨hl, hb, hf⟩ := hs
  obtain ⟨fresh, _, keep, _, el, _, hf'⟩ := addNodeRaw_spec s s' hf op parent numOuts m i h
  refine ⟨by rw [el]; exact hl, ?_, hf'⟩
  refine portBound_mono s s' hb ?_ ?_
  · intro l hlm; rw [linksList_congr s s' el] at hlm; exact hlm
  · intro j d hd _
    have hji : j ≠ i := by intro e; subst e; exact fresh d hd
    obtain ⟨d', e', _, n', o'⟩ := keep j d hji hd
    exact ⟨d', e', by omega, by omega⟩

theorem sinv_deleteNode (s s' : Store Ω μ) (hs : SInv s) (node : Nat)
    (h : deleteNode s node = .ok s') : SInv s' := by
  obtain ⟨_, _, _, a, b, c, _⟩ := deleteNode_spec s s' hs.links hs.bound hs.free node h
  exact ⟨a, b, c⟩

theorem sinv_init (rootOp : Ω) (m : μ) : SInv (init rootOp m) := by
  have h0 : SInv ({ nodes := [], links := BiMap.empty, free := [], root := 0 } : Store Ω μ) := by
    refine ⟨linv_empty, ?_, ⟨by intro i; simp, by simp⟩⟩
    intro l hl; simp [linksList, BiMap.empty] at hl
  unfold init
  simp only []
  split
  · rename_i s i heq
    have := sinv_addNodeRaw _ s h0 rootOp none (some 0) m i heq
    exact ⟨this.links, this.bound, ⟨this.free.iff, this.free.nodup⟩⟩
  · exact h0

/-! ### `insert_hugr` keeps the invariant -/

theorem sinv_addNode (s s' : Store Ω μ) (hs : SInv s) (op : Ω) (parent : Option Nat)
    (numOuts : Option Nat) (m : μ) (i : Nat) (h : addNode s op parent numOuts m = .ok (s', i)) : SInv s' :=
  sinv_addNodeRaw s s' hs op _ numOuts m i h

theorem sinv_insertNodes (b : Store Ω μ) (parent : Option Nat) : ∀ (is : List Nat) (s s' : Store Ω μ)
    (mp mp' : Dict Nat Nat), SInv s → insertNodes s b parent is mp = .ok (s', mp') → SInv s' := by
  intro is
  induction is with
  | nil => intro s s' mp mp' hs h; simp [insertNodes] at h; rw [← h.1]; exact hs
  | cons i is ih =>
    intro s s' mp mp' hs h
    unfold insertNodes at h
    cases hd : getNode b i with
    | error e => simp [hd] at h
    | ok d =>
      simp only [hd] at h
      cases hp : resolveParent mp parent d.parent with
      | error e => simp [hp] at h
      | ok np =>
        simp only [hp] at h
        cases ha : addNode s d.op np (some d.numOuts) d.md with
        | error e => simp [ha] at h
        | ok r =>
          simp only [ha] at h
          exact ih r.1 s' _ mp' (sinv_addNode s r.1 hs _ _ _ _ r.2 ha) h

theorem sinv_insertLinks (mp : Dict Nat Nat) : ∀ (ls : List (SubPort × SubPort)) (s s' : Store Ω μ),
    SInv s → (∀ e ∈ ls, -1 ≤ e.1.offset ∧ -1 ≤ e.2.offset) → insertLinks s mp ls = .ok s' → SInv s' := by
  intro ls
  induction ls with
  | nil => intro s s' hs _ h; simp [insertLinks, pure, Except.pure] at h; rw [← h]; exact hs
  | cons e ls ih =>
    intro s s' hs hoff h
    obtain ⟨a, c⟩ := e
    unfold insertLinks at h
    cases ha : Dict.get a.node mp with
    | none => simp [ha] at h
    | some a' =>
      cases hc : Dict.get c.node mp with
      | none => simp [ha, hc] at h
      | some c' =>
        simp only [ha, hc, bind, Except.bind] at h
        split at h
        · cases h
        · rename_i s1 h1
          have ho := hoff (a, c) (by simp)
          exact ih s1 s' (sinv_addLink s s1 hs (a', a.offset) (c', c.offset) ho.1 ho.2 h1)
            (fun e he => hoff e (List.mem_cons_of_mem _ he)) h

theorem sinv_insertHugr (s s' b : Store Ω μ) (hs : SInv s) (hb : SInv b) (parent : Option Nat)
    (mp : Dict Nat Nat) (h : insertHugr s b parent = .ok (s', mp)) : SInv s' := by
  unfold insertHugr at h
  simp only [bind, Except.bind] at h
  cases ho : hierarchyOrder b with
  | error e => simp [ho] at h
  | ok order =>
    simp only [ho] at h
    cases hr : insertNodes s b parent order [] with
    | error e => simp [hr] at h
    | ok r =>
      obtain ⟨s1, mp1⟩ := r
      simp only [hr] at h
      cases h2 : insertLinks s1 mp1 b.links.fwd with
      | error e => simp [h2] at h
      | ok s2 =>
        simp only [h2, pure, Except.pure] at h
        have hs2 : s2 = s' := by injection h with h; exact (Prod.mk.inj h).1
        subst hs2
        refine sinv_insertLinks mp1 b.links.fwd s1 s2 (sinv_insertNodes b parent _ s s1 [] mp1 hs hr) ?_ h2
        intro e he
        have hm : (e.1.port, e.2.port) ∈ linksList b := List.mem_map.mpr ⟨e, he, by cases e; rfl⟩
        obtain ⟨⟨_, _, h1, _⟩, ⟨_, _, h2, _⟩⟩ := hb.bound _ hm
        exact ⟨h1, h2⟩

end HugrVerif.Store
