/-
  Lemmas and proofs about the tracked dataflow builder (`Build/Tracked.lean`) for `Props/C15.lean`.
-/
import HugrVerif.Build.Tracked
import HugrVerif.Proofs.Build

namespace HugrVerif.Build.Tracked
open HugrVerif HugrVerif.Build HugrVerif.Build.BuildState

theorem getB_ok_iff (st : BuildState) (bi : Nat) (r : BRec) : st.getB bi = .ok r ↔ st.builders[bi]? = some r := by
  unfold BuildState.getB
  cases st.builders[bi]? <;> simp

theorem plain_getB (st : BuildState) (bi : Nat) (r : BRec) (h : st.getB bi = .ok r) :
    (plain bi st).getB bi = .ok (plainRec r) := by
  have hb := (getB_ok_iff st bi r).mp h
  have hlt : bi < st.builders.length := (List.getElem?_eq_some_iff.mp hb).1
  unfold plain
  rw [hb]
  simp [BuildState.getB, hlt]

theorem plain_getHugr (st : BuildState) (bi hid : Nat) : (plain bi st).getHugr hid = st.getHugr hid := by
  unfold plain BuildState.getHugr
  cases st.builders[bi]? <;> rfl

theorem plain_setHugr (st : BuildState) (bi hid : Nat) (s : St) :
    plain bi (st.setHugr hid s) = (plain bi st).setHugr hid s := by
  unfold plain BuildState.setHugr
  cases h : st.builders[bi]? <;> simp [h]

theorem plain_setB (st : BuildState) (bi : Nat) (r0 r : BRec) (h : st.getB bi = .ok r0) :
    plain bi (st.setB bi r) = (plain bi st).setB bi (plainRec r) := by
  have hb := (getB_ok_iff st bi r0).mp h
  have hlt : bi < st.builders.length := (List.getElem?_eq_some_iff.mp hb).1
  have hb2 : (st.setB bi r).builders[bi]? = some r := by simp [BuildState.setB, hlt]
  unfold plain
  rw [hb, hb2]
  simp [BuildState.setB]

theorem plain_tracked_irrelevant (st : BuildState) (bi : Nat) (r : BRec) (tr : List (Option Wire))
    (h : st.getB bi = .ok r) : plain bi (st.setB bi { r with tracked := tr }) = plain bi st := by
  have hb := (getB_ok_iff st bi r).mp h
  have hlt : bi < st.builders.length := (List.getElem?_eq_some_iff.mp hb).1
  have hb2 : (st.setB bi { r with tracked := tr }).builders[bi]? = some { r with tracked := tr } := by
    simp [BuildState.setB, hlt]
  unfold plain
  rw [hb, hb2]
  simp [BuildState.setB, plainRec]

theorem ctx_plainRec (r : BRec) (h : r.kind = .tracked) : (plainRec r).ctx = r.ctx := by
  simp [BRec.ctx, plainRec, h]

/-- `add_op` does not look at the index table: on the plain state it does the same. -/
theorem addOp_plain (st : BuildState) (bi : Nat) (op : Op) (ws : List Wire) (md : Serial.Meta)
    (ht : IsTracked st bi) (st2 : BuildState) (h : Handle)
    (ha : addOp st bi op ws md = .ok (st2, h)) :
    addOp (plain bi st) bi op ws md = .ok (plain bi st2, h) ∧ st2.builders = st.builders := by
  obtain ⟨r, hr, hk⟩ := ht
  unfold addOp at ha ⊢
  rw [plain_getB st bi r hr]
  simp only [hr] at ha
  simp only [plain_getHugr]
  have e1 : (plainRec r).hid = r.hid := rfl
  have e2 : (plainRec r).parent = r.parent := rfl
  rw [e1, e2, ctx_plainRec r hk]
  cases hs : st.getHugr r.hid with
  | error e => simp [hs] at ha
  | ok s =>
    simp only [hs] at ha ⊢
    cases hn : liftS (Store.addNode s op (some r.parent.1) none md) with
    | error e => simp [hn] at ha
    | ok x =>
      obtain ⟨s1, n⟩ := x
      simp only [hn] at ha ⊢
      cases hw : wireUp s1 r.ctx n ws with
      | error e => simp [hw] at ha
      | ok y =>
        obtain ⟨s2, tys⟩ := y
        simp only [hw] at ha ⊢
        cases ho : nodeOp s2 n with
        | error e => simp [ho] at ha
        | ok op' =>
          simp only [ho] at ha ⊢
          cases hk2 : Op.numOut op' with
          | error e => simp [hk2] at ha
          | ok k =>
            simp only [hk2] at ha ⊢
            injection ha with ha
            obtain ⟨rfl, rfl⟩ := Prod.mk.inj ha
            exact ⟨by rw [plain_setHugr], rfl⟩

theorem getB_of_builders (st st2 : BuildState) (bi : Nat) (h : st2.builders = st.builders) :
    st2.getB bi = st.getB bi := by
  unfold BuildState.getB; rw [h]

/-- `Dfg.set_outputs` does not look at the index table either. -/
theorem setOutputsDfg_plain (st : BuildState) (bi : Nat) (ws : List Wire)
    (ht : IsTracked st bi) (st1 : BuildState)
    (ha : setOutputsDfg st bi ws = .ok st1) :
    setOutputsDfg (plain bi st) bi ws = .ok (plain bi st1) ∧
    trackedOf st1 bi = trackedOf st bi ∧ IsTracked st1 bi := by
  obtain ⟨r, hr, hk⟩ := ht
  unfold setOutputsDfg at ha ⊢
  unfold setOutputsBase at ha ⊢
  rw [plain_getB st bi r hr]
  simp only [hr] at ha
  simp only [plain_getHugr]
  have e1 : (plainRec r).hid = r.hid := rfl
  have e2 : (plainRec r).parent = r.parent := rfl
  have e3 : (plainRec r).output = r.output := rfl
  rw [e1, e2, e3, ctx_plainRec r hk]
  cases hs : st.getHugr r.hid with
  | error e => simp [hs] at ha
  | ok s =>
    simp only [hs] at ha ⊢
    cases ho : setOutputsStore s r.ctx r.parent.1 r.output.1 ws with
    | error e => simp [ho] at ha
    | ok s1 =>
      simp only [ho] at ha ⊢
      -- `_set_parent_output_count`
      unfold setParentOutputCount at ha ⊢
      have hr1 : (st.setHugr r.hid s1).getB bi = .ok r := by
        rw [getB_of_builders st (st.setHugr r.hid s1) bi rfl]; exact hr
      rw [← plain_setHugr, plain_getB _ bi r hr1]
      simp only [hr1] at ha
      simp only [plain_getHugr]
      rw [e1, e2]
      cases hs2 : (st.setHugr r.hid s1).getHugr r.hid with
      | error e => simp [hs2] at ha
      | ok s2 =>
        simp only [hs2] at ha ⊢
        cases hu : liftS (Store.updateNodeOuts s2 r.parent.1 ws.length) with
        | error e => simp [hu] at ha
        | ok s3 =>
          simp only [hu] at ha ⊢
          injection ha with ha
          subst ha
          have hr2 : ((st.setHugr r.hid s1).setHugr r.hid s3).getB bi = .ok r := by
            rw [getB_of_builders (st.setHugr r.hid s1) ((st.setHugr r.hid s1).setHugr r.hid s3) bi rfl]; exact hr1
          refine ⟨?_, ?_, ?_⟩
          · rw [plain_setB _ bi r _ hr2]
            simp only [plain_setHugr]
            rfl
          · have hb := (getB_ok_iff _ bi r).mp hr2
            have hlt : bi < ((st.setHugr r.hid s1).setHugr r.hid s3).builders.length :=
              (List.getElem?_eq_some_iff.mp hb).1
            have hb0 := (getB_ok_iff _ bi r).mp hr
            simp only [trackedOf, BuildState.setB]
            rw [List.getElem?_set_self hlt]
            simp [hb0]
          · exact ⟨_, getB_setB' _ bi r _ hr2, hk⟩
where
  getB_setB' (st : BuildState) (bi : Nat) (r r' : BRec) (h : st.getB bi = .ok r) :
      (st.setB bi r').getB bi = .ok r' := by
    have hb := (getB_ok_iff st bi r).mp h
    have hlt : bi < st.builders.length := (List.getElem?_eq_some_iff.mp hb).1
    simp [BuildState.getB, BuildState.setB, hlt]

theorem getB_setB (st : BuildState) (bi : Nat) (r r' : BRec) (h : st.getB bi = .ok r) :
    (st.setB bi r').getB bi = .ok r' := by
  have hb := (getB_ok_iff st bi r).mp h
  have hlt : bi < st.builders.length := (List.getElem?_eq_some_iff.mp hb).1
  simp [BuildState.getB, BuildState.setB, hlt]

theorem trackedOf_of_getB (st : BuildState) (bi : Nat) (r : BRec) (h : st.getB bi = .ok r) :
    trackedOf st bi = r.tracked := by
  simp [trackedOf, (getB_ok_iff st bi r).mp h]

theorem addOp_builders (st : BuildState) (bi : Nat) (op : Op) (ws : List Wire) (md : Serial.Meta)
    (st2 : BuildState) (h : Handle) (ha : addOp st bi op ws md = .ok (st2, h)) : st2.builders = st.builders := by
  unfold addOp at ha
  cases hr : st.getB bi with
  | error e => simp [hr] at ha
  | ok r =>
    simp only [hr] at ha
    cases hs : st.getHugr r.hid with
    | error e => simp [hs] at ha
    | ok s =>
      simp only [hs] at ha
      cases hn : liftS (Store.addNode s op (some r.parent.1) none md) with
      | error e => simp [hn] at ha
      | ok x =>
        obtain ⟨s1, n⟩ := x
        simp only [hn] at ha
        cases hw : wireUp s1 r.ctx n ws with
        | error e => simp [hw] at ha
        | ok y =>
          obtain ⟨s2, tys⟩ := y
          simp only [hw] at ha
          cases ho : nodeOp s2 n with
          | error e => simp [ho] at ha
          | ok op' =>
            simp only [ho] at ha
            cases hk2 : Op.numOut op' with
            | error e => simp [hk2] at ha
            | ok k =>
              simp only [hk2] at ha
              injection ha with ha
              obtain ⟨rfl, _⟩ := Prod.mk.inj ha
              rfl

/-- **`add` connects the wires tracked BEFORE the command, then rebinds**: the integer arguments are
    resolved against the index table as it is when the command starts, the node is added by the plain
    `add_op` with those wires and the given metadata, and only then every integer argument's index is
    rebound to the new node's output at the argument's position. -/
theorem add_spec (st st1 : BuildState) (bi : Nat) (op : Op) (args : List ComWire) (md : Serial.Meta) (h : Handle)
    (ha : trackedAdd st bi op args md = .ok (st1, h)) :
    ∃ r ws st2, st.getB bi = .ok r ∧ toWires r.tracked args = .ok ws ∧
      addOp st bi op ws md = .ok (st2, h) ∧ st2.getB bi = .ok r ∧
      st1 = st2.setB bi { r with tracked := rebind h.1 r.tracked 0 args } := by
  unfold trackedAdd at ha
  cases hr : st.getB bi with
  | error e => simp [hr] at ha
  | ok r =>
    simp only [hr] at ha
    cases hw : toWires r.tracked args with
    | error e => simp [hw] at ha
    | ok ws =>
      simp only [hw] at ha
      cases hop : addOp st bi op ws md with
      | error e => simp [hop] at ha
      | ok x =>
        obtain ⟨st2, h'⟩ := x
        simp only [hop] at ha
        have hb2 : st2.getB bi = .ok r := by
          -- `add_op` only replaces the HUGR
          rw [getB_of_builders st st2 bi (addOp_builders st bi op ws md st2 h' hop)]; exact hr
        simp only [hb2] at ha
        injection ha with ha
        obtain ⟨rfl, rfl⟩ := Prod.mk.inj ha
        exact ⟨r, ws, st2, rfl, hw, hop, hb2, rfl⟩

/-- `rebind` keeps the length of the index table -/
theorem rebind_length (n : Nat) : ∀ (args : List ComWire) (tr : List (Option Wire)) (pos : Nat),
    (rebind n tr pos args).length = tr.length := by
  intro args
  induction args with
  | nil => intro tr pos; rfl
  | cons a rest ih =>
    intro tr pos
    cases a with
    | wire w => simp [rebind, ih]
    | idx i => simp [rebind, ih]

/-- **Rebinding**: after `add`, an index that occurs among the integer arguments denotes the new node's
    output at (the last of) its argument position(s); every other index is unchanged. -/
theorem rebind_get (n : Nat) (i : Nat) : ∀ (args : List ComWire) (tr : List (Option Wire)) (pos : Nat),
    i < tr.length →
    (rebind n tr pos args)[i]? =
      match lastPos i args pos with
      | some p => some (some (n, (p : Int)))
      | none => tr[i]? := by
  intro args
  induction args with
  | nil => intro tr pos _; rfl
  | cons a rest ih =>
    intro tr pos hi
    cases a with
    | wire w => simp only [rebind, lastPos]; exact ih tr (pos + 1) hi
    | idx j =>
      simp only [rebind, lastPos]
      rw [ih (tr.set j (some (n, (pos : Int)))) (pos + 1) (by simpa using hi)]
      cases hl : lastPos i rest (pos + 1) with
      | some p => rfl
      | none =>
        simp only
        by_cases hji : j = i
        · subst hji; simp [hi]
        · simp [hji, List.getElem?_set_ne hji]

theorem denote_tracks : ∀ (ws : List Wire) (tr : List (Option Wire)),
    denote tr (ws.map Ev.track) = tr ++ ws.map some := by
  intro ws
  induction ws with
  | nil => intro tr; simp [denote]
  | cons w ws ih =>
    intro tr
    have : denote tr ((w :: ws).map Ev.track) = denote (tr ++ [some w]) (ws.map Ev.track) := rfl
    rw [this, ih]
    simp

theorem trackWires_tracked (bi : Nat) : ∀ (ws : List Wire) (st st1 : BuildState) (is : List Nat),
    IsTracked st bi → trackWires bi st ws = .ok (st1, is) →
    IsTracked st1 bi ∧ trackedOf st1 bi = trackedOf st bi ++ ws.map some ∧ plain bi st1 = plain bi st := by
  intro ws
  induction ws with
  | nil =>
    intro st st1 is ht h
    simp only [trackWires] at h
    injection h with h
    obtain ⟨rfl, _⟩ := Prod.mk.inj h
    exact ⟨ht, by simp, rfl⟩
  | cons w ws ih =>
    intro st st1 is ht h
    obtain ⟨r, hr, hk⟩ := ht
    simp only [trackWires, trackWire, hr] at h
    cases hrest : trackWires bi (st.setB bi { r with tracked := r.tracked ++ [some w] }) ws with
    | error e => simp [hrest] at h
    | ok x =>
      obtain ⟨st2, is2⟩ := x
      simp only [hrest] at h
      injection h with h
      obtain ⟨rfl, _⟩ := Prod.mk.inj h
      have ht1 : IsTracked (st.setB bi { r with tracked := r.tracked ++ [some w] }) bi :=
        ⟨_, getB_setB st bi r _ hr, hk⟩
      obtain ⟨a, b, c⟩ := ih _ _ _ ht1 hrest
      refine ⟨a, ?_, ?_⟩
      · rw [b, trackedOf_of_getB _ bi _ (getB_setB st bi r _ hr), trackedOf_of_getB st bi r hr]
        simp
      · rw [c, plain_tracked_irrelevant st bi r _ hr]

/-- **`binding_spec`**: after any successful history the index table is what the events denote —
    `track` appends (the returned index is the previous length), `add` rebinds the indices among its
    integer arguments to the new node's outputs at the argument positions (`rebind_get`), `untrack`
    sets the entry to `None`; nothing else writes the table (in particular `set_*_outputs` do not). -/
theorem binding_step (bi : Nat) (st st1 : BuildState) (c : TCmd) (evs : List Ev)
    (ht : IsTracked st bi) (h : stepLog bi st c = .ok (st1, evs)) :
    IsTracked st1 bi ∧ trackedOf st1 bi = denote (trackedOf st bi) evs := by
  obtain ⟨r, hr, hk⟩ := ht
  cases c with
  | trackWire w =>
    simp only [stepLog, trackWire, hr] at h
    injection h with h
    obtain ⟨rfl, rfl⟩ := Prod.mk.inj h
    refine ⟨⟨_, getB_setB st bi r _ hr, hk⟩, ?_⟩
    rw [trackedOf_of_getB _ bi _ (getB_setB st bi r _ hr), trackedOf_of_getB st bi r hr]
    rfl
  | trackWires ws =>
    simp only [stepLog] at h
    cases hw : trackWires bi st ws with
    | error e => simp [hw] at h
    | ok x =>
      obtain ⟨st2, is⟩ := x
      simp only [hw] at h
      injection h with h
      obtain ⟨rfl, rfl⟩ := Prod.mk.inj h
      obtain ⟨a, b, _⟩ := trackWires_tracked bi ws st st2 is ⟨r, hr, hk⟩ hw
      refine ⟨a, ?_⟩
      rw [b]
      exact (denote_tracks ws _).symm
  | trackInputs =>
    simp only [stepLog] at h
    cases hi : inputsOf st bi with
    | error e => simp [hi] at h
    | ok ws =>
      simp only [hi] at h
      cases hw : trackWires bi st ws with
      | error e => simp [hw] at h
      | ok x =>
        obtain ⟨st2, is⟩ := x
        simp only [hw] at h
        injection h with h
        obtain ⟨rfl, rfl⟩ := Prod.mk.inj h
        obtain ⟨a, b, _⟩ := trackWires_tracked bi ws st st2 is ⟨r, hr, hk⟩ hw
        refine ⟨a, ?_⟩
        rw [b]
        exact (denote_tracks ws _).symm
  | untrack i =>
    simp only [stepLog, untrackWire, hr] at h
    cases htw : trackedWire r.tracked i with
    | error e => simp [htw] at h
    | ok w =>
      simp only [htw] at h
      injection h with h
      obtain ⟨rfl, rfl⟩ := Prod.mk.inj h
      refine ⟨⟨_, getB_setB st bi r _ hr, hk⟩, ?_⟩
      rw [trackedOf_of_getB _ bi _ (getB_setB st bi r _ hr), trackedOf_of_getB st bi r hr]
      rfl
  | add op args md =>
    simp only [stepLog] at h
    cases ha : trackedAdd st bi op args md with
    | error e => simp [ha] at h
    | ok x =>
      obtain ⟨st2, hd⟩ := x
      simp only [ha] at h
      injection h with h
      obtain ⟨rfl, rfl⟩ := Prod.mk.inj h
      obtain ⟨r', ws, st3, e1, e2, e3, e4, e5⟩ := add_spec st st2 bi op args md hd ha
      rw [hr] at e1; injection e1 with e1; subst e1
      subst e5
      refine ⟨⟨_, getB_setB st3 bi r _ e4, hk⟩, ?_⟩
      rw [trackedOf_of_getB _ bi _ (getB_setB st3 bi r _ e4), trackedOf_of_getB st bi r hr]
      rfl
  | extend coms => simp [stepLog] at h
  | setIndexedOutputs args =>
    simp only [stepLog] at h
    cases ha : setIndexedOutputs st bi args with
    | error e => simp [ha] at h
    | ok st2 =>
      simp only [ha] at h
      injection h with h
      obtain ⟨rfl, rfl⟩ := Prod.mk.inj h
      unfold setIndexedOutputs at ha
      simp only [hr] at ha
      cases hw : toWires r.tracked args with
      | error e => simp [hw] at ha
      | ok ws =>
        simp only [hw] at ha
        obtain ⟨_, b, c⟩ := setOutputsDfg_plain st bi ws ⟨r, hr, hk⟩ st2 ha
        exact ⟨c, by rw [b]; rfl⟩
  | setTrackedOutputs =>
    simp only [stepLog] at h
    cases ha : setTrackedOutputs st bi with
    | error e => simp [ha] at h
    | ok st2 =>
      simp only [ha] at h
      injection h with h
      obtain ⟨rfl, rfl⟩ := Prod.mk.inj h
      unfold setTrackedOutputs at ha
      simp only [hr] at ha
      obtain ⟨_, b, c⟩ := setOutputsDfg_plain st bi _ ⟨r, hr, hk⟩ st2 ha
      exact ⟨c, by rw [b]; rfl⟩

theorem denote_append (tr : List (Option Wire)) (a b : List Ev) : denote tr (a ++ b) = denote (denote tr a) b := by
  simp [denote, List.foldl_append]

theorem binding_spec (bi : Nat) : ∀ (p : List TCmd) (st st' : BuildState) (evs : List Ev),
    IsTracked st bi → runLog bi st p = .ok (st', evs) →
    IsTracked st' bi ∧ trackedOf st' bi = denote (trackedOf st bi) evs := by
  intro p
  induction p with
  | nil =>
    intro st st' evs ht h
    simp only [runLog] at h
    injection h with h
    obtain ⟨rfl, rfl⟩ := Prod.mk.inj h
    exact ⟨ht, rfl⟩
  | cons c cs ih =>
    intro st st' evs ht h
    simp only [runLog] at h
    cases hs : stepLog bi st c with
    | error e => simp [hs] at h
    | ok x =>
      obtain ⟨st1, ev1⟩ := x
      simp only [hs] at h
      cases hrest : runLog bi st1 cs with
      | error e => simp [hrest] at h
      | ok y =>
        obtain ⟨st2, ev2⟩ := y
        simp only [hrest] at h
        injection h with h
        obtain ⟨rfl, rfl⟩ := Prod.mk.inj h
        obtain ⟨a, b⟩ := binding_step bi st st1 c ev1 ht hs
        obtain ⟨a2, b2⟩ := ih st1 st2 ev2 a hrest
        exact ⟨a2, by rw [b2, b, denote_append]⟩

/-- one flat tracked command and the explicit command(s) it elaborates to do the same to the HUGR -/
theorem step_sim (bi : Nat) (st st1 : BuildState) (c : TCmd) (ht : IsTracked st bi)
    (hc : ∀ coms, c ≠ .extend coms) (h : stepT bi st c = .ok st1) :
    IsTracked st1 bi ∧
    ∃ es, elabCmd (trackedOf st bi) c = .ok es ∧ runE bi (plain bi st) es = .ok (plain bi st1) := by
  obtain ⟨r, hr, hk⟩ := ht
  cases c with
  | trackWire w =>
    simp only [stepT, trackWire, hr, dropRes] at h
    injection h with h; subst h
    exact ⟨⟨_, getB_setB st bi r _ hr, hk⟩, [], rfl, by rw [plain_tracked_irrelevant st bi r _ hr]; rfl⟩
  | trackWires ws =>
    simp only [stepT] at h
    cases hw : trackWires bi st ws with
    | error e => simp [hw, dropRes] at h
    | ok x =>
      obtain ⟨st2, is⟩ := x
      simp only [hw, dropRes] at h
      injection h with h; subst h
      obtain ⟨a, _, c⟩ := trackWires_tracked bi ws st st2 is ⟨r, hr, hk⟩ hw
      exact ⟨a, [], rfl, by rw [c]; rfl⟩
  | trackInputs =>
    simp only [stepT] at h
    cases hi : inputsOf st bi with
    | error e => simp [hi] at h
    | ok ws =>
      simp only [hi] at h
      cases hw : trackWires bi st ws with
      | error e => simp [hw, dropRes] at h
      | ok x =>
        obtain ⟨st2, is⟩ := x
        simp only [hw, dropRes] at h
        injection h with h; subst h
        obtain ⟨a, _, c⟩ := trackWires_tracked bi ws st st2 is ⟨r, hr, hk⟩ hw
        exact ⟨a, [], rfl, by rw [c]; rfl⟩
  | untrack i =>
    simp only [stepT, untrackWire, hr] at h
    cases htw : trackedWire r.tracked i with
    | error e => simp [htw, dropRes] at h
    | ok w =>
      simp only [htw, dropRes] at h
      injection h with h; subst h
      exact ⟨⟨_, getB_setB st bi r _ hr, hk⟩, [], rfl, by rw [plain_tracked_irrelevant st bi r _ hr]; rfl⟩
  | add op args md =>
    simp only [stepT] at h
    cases ha : trackedAdd st bi op args md with
    | error e => simp [ha, dropRes] at h
    | ok x =>
      obtain ⟨st2, hd⟩ := x
      simp only [ha, dropRes] at h
      injection h with h; subst h
      obtain ⟨r', ws, st3, e1, e2, e3, e4, e5⟩ := add_spec st st2 bi op args md hd ha
      rw [hr] at e1; injection e1 with e1; subst e1
      subst e5
      obtain ⟨p1, _⟩ := addOp_plain st bi op ws md ⟨r, hr, hk⟩ st3 hd e3
      refine ⟨⟨_, getB_setB st3 bi r _ e4, hk⟩, [.addOp op ws md], ?_, ?_⟩
      · simp [elabCmd, trackedOf_of_getB st bi r hr, e2]
      · simp [runE, stepE, p1, dropRes, plain_tracked_irrelevant st3 bi r _ e4]
  | extend coms => exact absurd rfl (hc coms)
  | setIndexedOutputs args =>
    simp only [stepT] at h
    unfold setIndexedOutputs at h
    simp only [hr] at h
    cases hw : toWires r.tracked args with
    | error e => simp [hw] at h
    | ok ws =>
      simp only [hw] at h
      obtain ⟨a, _, c⟩ := setOutputsDfg_plain st bi ws ⟨r, hr, hk⟩ st1 h
      refine ⟨c, [.setOutputs ws], ?_, ?_⟩
      · simp [elabCmd, trackedOf_of_getB st bi r hr, hw]
      · simp [runE, stepE, a]
  | setTrackedOutputs =>
    simp only [stepT] at h
    unfold setTrackedOutputs at h
    simp only [hr] at h
    obtain ⟨a, _, c⟩ := setOutputsDfg_plain st bi _ ⟨r, hr, hk⟩ st1 h
    refine ⟨c, [.setOutputs (r.tracked.filterMap id)], ?_, ?_⟩
    · simp [elabCmd, trackedOf_of_getB st bi r hr]
    · simp [runE, stepE, a]

theorem runE_append (bi : Nat) : ∀ (a b : List ECmd) (st st1 : BuildState),
    runE bi st a = .ok st1 → runE bi st (a ++ b) = runE bi st1 b := by
  intro a
  induction a with
  | nil => intro b st st1 h; simp only [runE] at h; injection h with h; subst h; rfl
  | cons c cs ih =>
    intro b st st1 h
    simp only [runE, List.cons_append] at h ⊢
    cases hs : stepE bi st c with
    | error e => simp [hs] at h
    | ok st2 => simp only [hs] at h ⊢; exact ih b st2 st1 h

/-- `explicit_equiv` for programs without `extend` -/
theorem explicit_equiv_flat (bi : Nat) : ∀ (p : List TCmd) (st st' : BuildState),
    IsTracked st bi → IsFlat p → runT bi st p = .ok st' →
    ∃ ep, elaborate bi st p = .ok ep ∧ runE bi (plain bi st) ep = .ok (plain bi st') := by
  intro p
  induction p with
  | nil =>
    intro st st' _ _ h
    simp only [runT] at h
    injection h with h; subst h
    exact ⟨[], rfl, rfl⟩
  | cons c cs ih =>
    intro st st' ht hf h
    simp only [runT] at h
    cases hs : stepT bi st c with
    | error e => simp [hs] at h
    | ok st1 =>
      simp only [hs] at h
      have hc : ∀ coms, c ≠ .extend coms := by
        intro coms hcc; subst hcc; exact hf
      have hf' : IsFlat cs := by
        cases c <;> first | exact hf | exact absurd rfl (hc _)
      obtain ⟨ht1, es, e1, e2⟩ := step_sim bi st st1 c ht hc hs
      obtain ⟨ep, e3, e4⟩ := ih st1 st' ht1 hf' h
      refine ⟨es ++ ep, ?_, ?_⟩
      · simp [elaborate, e1, hs, e3]
      · rw [runE_append bi es ep _ _ e2]; exact e4

theorem runT_append (bi : Nat) : ∀ (a b : List TCmd) (st : BuildState),
    runT bi st (a ++ b) = match runT bi st a with
      | .ok st1 => runT bi st1 b
      | .error e => .error e := by
  intro a
  induction a with
  | nil => intro b st; rfl
  | cons c cs ih =>
    intro b st
    simp only [runT, List.cons_append]
    cases hs : stepT bi st c with
    | error e => rfl
    | ok st1 => exact ih b st1

theorem trackedAdd_tracked (st st1 : BuildState) (bi : Nat) (op : Op) (args : List ComWire) (md : Serial.Meta)
    (h : Handle) (ht : IsTracked st bi) (ha : trackedAdd st bi op args md = .ok (st1, h)) : IsTracked st1 bi := by
  obtain ⟨r, hr, hk⟩ := ht
  obtain ⟨r', ws, st3, e1, _, _, e4, e5⟩ := add_spec st st1 bi op args md h ha
  rw [hr] at e1; injection e1 with e1; subst e1
  subst e5
  exact ⟨_, getB_setB st3 bi r _ e4, hk⟩

theorem extend_is_adds (bi : Nat) : ∀ (coms : List (Op × List ComWire)) (st : BuildState),
    IsTracked st bi →
    dropRes (Build.extend bi st coms) = runT bi st (coms.map (fun c => TCmd.add c.1 c.2 [])) := by
  intro coms
  induction coms with
  | nil => intro st _; rfl
  | cons c cs ih =>
    intro st ht
    obtain ⟨op, args⟩ := c
    obtain ⟨r, hr, hk⟩ := ht
    simp only [Build.extend, List.map_cons, runT, stepT, addCom, hr, hk, if_true]
    cases ha : trackedAdd st bi op args [] with
    | error e => simp [dropRes]
    | ok x =>
      obtain ⟨st1, h⟩ := x
      simp only [dropRes]
      have ht1 := trackedAdd_tracked st st1 bi op args [] h ⟨r, hr, hk⟩ ha
      rw [← ih st1 ht1]
      cases Build.extend bi st1 cs with
      | error e => rfl
      | ok y => rfl

theorem stepT_tracked (bi : Nat) (st st1 : BuildState) (c : TCmd) (ht : IsTracked st bi)
    (hc : ∀ coms, c ≠ .extend coms) (h : stepT bi st c = .ok st1) : IsTracked st1 bi :=
  (step_sim bi st st1 c ht hc h).1

theorem runT_tracked_flat (bi : Nat) : ∀ (p : List TCmd) (st st' : BuildState),
    IsTracked st bi → IsFlat p → runT bi st p = .ok st' → IsTracked st' bi := by
  intro p
  induction p with
  | nil => intro st st' ht _ h; simp only [runT] at h; injection h with h; subst h; exact ht
  | cons c cs ih =>
    intro st st' ht hf h
    simp only [runT] at h
    cases hs : stepT bi st c with
    | error e => simp [hs] at h
    | ok st1 =>
      simp only [hs] at h
      have hc : ∀ coms, c ≠ .extend coms := by
        intro coms hcc; subst hcc; exact hf
      have hf' : IsFlat cs := by
        cases c <;> first | exact hf | exact absurd rfl (hc _)
      exact ih st1 st' (stepT_tracked bi st st1 c ht hc hs) hf' h

theorem isFlat_adds (coms : List (Op × List ComWire)) : IsFlat (coms.map (fun c => TCmd.add c.1 c.2 [])) := by
  induction coms with
  | nil => trivial
  | cons c cs ih => exact ih

theorem isFlat_append : ∀ (a b : List TCmd), IsFlat a → IsFlat b → IsFlat (a ++ b) := by
  intro a
  induction a with
  | nil => intro b _ hb; exact hb
  | cons c cs ih =>
    intro b ha hb
    cases c <;> first | exact ih b ha hb | exact ha.elim

theorem isFlat_flatten : ∀ (p : List TCmd), IsFlat (flatten p) := by
  intro p
  induction p with
  | nil => trivial
  | cons c cs ih =>
    cases c <;> first | exact ih | exact isFlat_append _ _ (isFlat_adds _) ih

theorem runT_flatten (bi : Nat) : ∀ (p : List TCmd) (st st' : BuildState),
    IsTracked st bi → runT bi st p = .ok st' → runT bi st (flatten p) = .ok st' := by
  intro p
  induction p with
  | nil => intro st st' _ h; exact h
  | cons c cs ih =>
    intro st st' ht h
    simp only [runT] at h
    cases hs : stepT bi st c with
    | error e => simp [hs] at h
    | ok st1 =>
      simp only [hs] at h
      cases c with
      | extend coms =>
        simp only [flatten, runT_append]
        have e := extend_is_adds bi coms st ht
        simp only [stepT] at hs
        rw [e] at hs
        rw [hs]
        have ht1 := runT_tracked_flat bi _ st st1 ht (isFlat_adds coms) hs
        exact ih st1 st' ht1 h
      | _ =>
        simp only [flatten, runT, hs]
        exact ih st1 st' (stepT_tracked bi st st1 _ ht (by intro coms hcc; cases hcc) hs) h

/-- **`explicit_equiv`**: whenever a program of tracked commands runs, its elaboration — every integer
    replaced by the wire it denotes, `extend` unfolded into `add`s, index-table commands dropped — runs
    on the same builder taken as a plain `Dfg` and ends in the same state: the same HUGR, node for
    node and link for link, including the metadata given to `add` (every node is created by the same
    `add_op` call on both sides). -/
theorem explicit_equiv (bi : Nat) (p : List TCmd) (st st' : BuildState)
    (ht : IsTracked st bi) (h : runT bi st p = .ok st') :
    ∃ ep, elaborate bi st (flatten p) = .ok ep ∧ runE bi (plain bi st) ep = .ok (plain bi st') :=
  explicit_equiv_flat bi (flatten p) st st' ht (isFlat_flatten p) (runT_flatten bi p st st' ht h)

/-- in particular the HUGRs are equal -/
theorem explicit_equiv_stores (bi : Nat) (p : List TCmd) (st st' : BuildState)
    (ht : IsTracked st bi) (h : runT bi st p = .ok st') :
    ∃ ep ste, elaborate bi st (flatten p) = .ok ep ∧ runE bi (plain bi st) ep = .ok ste ∧ ste.hugrs = st'.hugrs := by
  obtain ⟨ep, e1, e2⟩ := explicit_equiv bi p st st' ht h
  refine ⟨ep, _, e1, e2, ?_⟩
  unfold plain
  cases st'.builders[bi]? <;> rfl

/-- a `TrackedDfg(*tys)` and a `Dfg(*tys)` start from the same HUGR: `plain` of the former is the latter -/
theorem init_plain (tys : List Ty) :
    (match newStandaloneDf {} .tracked (.dfg tys none []) with
     | .ok (st, bi) => some (plain bi st, bi)
     | .error _ => none) =
    (match newStandaloneDf {} .dfg (.dfg tys none []) with
     | .ok (st, bi) => some (st, bi)
     | .error _ => none) := by
  unfold newStandaloneDf
  cases initIO (Store.init (.dfg tys none []) []) (.dfg tys none []) (Store.init (Op.dfg tys none []) [] : St).root with
  | error e => rfl
  | ok x => rfl

theorem trackedWire_ok (tr : List (Option Wire)) (i : Nat) (w : Wire) :
    trackedWire tr i = .ok w ↔ tr[i]? = some (some w) := by
  unfold trackedWire
  cases h : tr[i]? with
  | none => simp
  | some o => cases o <;> simp

theorem toWires_uses_tracked (tr : List (Option Wire)) (i : Nat) : ∀ (args : List ComWire) (ws : List Wire),
    toWires tr args = .ok ws → ComWire.idx i ∈ args → ∃ w, tr[i]? = some (some w) := by
  intro args
  induction args with
  | nil => intro ws _ hi; cases hi
  | cons a rest ih =>
    intro ws h hi
    cases a with
    | wire w =>
      unfold toWires at h
      cases hr : toWires tr rest with
      | error e => simp [hr] at h
      | ok ws' =>
        cases hi with
        | tail _ hi => exact ih ws' hr hi
    | idx j =>
      unfold toWires at h
      cases ht : trackedWire tr j with
      | error e => simp [ht] at h
      | ok w =>
        simp only [ht] at h
        cases hr : toWires tr rest with
        | error e => simp [hr] at h
        | ok ws' =>
          cases hi with
          | head => exact ⟨w, (trackedWire_ok tr i w).mp ht⟩
          | tail _ hi => exact ih ws' hr hi

theorem rebind_untouched (n : Nat) (i : Nat) : ∀ (args : List ComWire) (tr : List (Option Wire)) (pos : Nat),
    ComWire.idx i ∉ args → (rebind n tr pos args)[i]? = tr[i]? := by
  intro args
  induction args with
  | nil => intro tr pos _; rfl
  | cons a rest ih =>
    intro tr pos hni
    have hrest : ComWire.idx i ∉ rest := fun h => hni (List.mem_cons_of_mem _ h)
    cases a with
    | wire w => simp only [rebind]; exact ih tr (pos + 1) hrest
    | idx j =>
      simp only [rebind]
      rw [ih _ (pos + 1) hrest]
      have hji : j ≠ i := by intro h; subst h; exact hni List.mem_cons_self
      exact List.getElem?_set_ne hji

/-- one successful event keeps a freed index freed -/
theorem freed_step (bi : Nat) (st st1 : BuildState) (c : TCmd) (evs : List Ev) (i : Nat)
    (ht : IsTracked st bi) (h : stepLog bi st c = .ok (st1, evs))
    (hf : (trackedOf st bi)[i]? = some none) : (trackedOf st1 bi)[i]? = some none := by
  obtain ⟨_, hd⟩ := binding_step bi st st1 c evs ht h
  rw [hd]
  obtain ⟨r, hr, hk⟩ := ht
  have hlt : i < (trackedOf st bi).length := (List.getElem?_eq_some_iff.mp hf).1
  cases c with
  | trackWire w =>
    simp only [stepLog, trackWire, hr] at h
    injection h with h
    obtain ⟨_, rfl⟩ := Prod.mk.inj h
    simp [denote, applyEv, List.getElem?_append_left hlt, hf]
  | trackWires ws =>
    simp only [stepLog] at h
    cases hw : trackWires bi st ws with
    | error e => simp [hw] at h
    | ok x =>
      simp only [hw] at h
      injection h with h
      obtain ⟨_, rfl⟩ := Prod.mk.inj h
      rw [denote_tracks, List.getElem?_append_left hlt, hf]
  | trackInputs =>
    simp only [stepLog] at h
    cases hi : inputsOf st bi with
    | error e => simp [hi] at h
    | ok ws =>
      simp only [hi] at h
      cases hw : trackWires bi st ws with
      | error e => simp [hw] at h
      | ok x =>
        simp only [hw] at h
        injection h with h
        obtain ⟨_, rfl⟩ := Prod.mk.inj h
        rw [denote_tracks, List.getElem?_append_left hlt, hf]
  | untrack j =>
    simp only [stepLog] at h
    cases hu : untrackWire st bi j with
    | error e => simp [hu] at h
    | ok x =>
      simp only [hu] at h
      injection h with h
      obtain ⟨_, rfl⟩ := Prod.mk.inj h
      simp only [denote, List.foldl_cons, List.foldl_nil, applyEv]
      by_cases hji : j = i
      · subst hji; simp [hlt]
      · rw [List.getElem?_set_ne hji]; exact hf
  | add op args md =>
    simp only [stepLog] at h
    cases ha : trackedAdd st bi op args md with
    | error e => simp [ha] at h
    | ok x =>
      obtain ⟨st2, hd2⟩ := x
      simp only [ha] at h
      injection h with h
      obtain ⟨_, rfl⟩ := Prod.mk.inj h
      obtain ⟨r', ws, st3, e1, e2, _, _, _⟩ := add_spec st st2 bi op args md hd2 ha
      rw [hr] at e1; injection e1 with e1; subst e1
      simp only [denote, List.foldl_cons, List.foldl_nil, applyEv]
      have hni : ComWire.idx i ∉ args := by
        intro hin
        obtain ⟨w, hw⟩ := toWires_uses_tracked r.tracked i args ws e2 hin
        rw [trackedOf_of_getB st bi r hr] at hf
        rw [hf] at hw; cases hw
      rw [rebind_untouched hd2.1 i args _ 0 hni]; exact hf
  | extend coms => simp [stepLog] at h
  | setIndexedOutputs args =>
    simp only [stepLog] at h
    cases ha : setIndexedOutputs st bi args with
    | error e => simp [ha] at h
    | ok st2 =>
      simp only [ha] at h
      injection h with h
      obtain ⟨_, rfl⟩ := Prod.mk.inj h
      exact hf
  | setTrackedOutputs =>
    simp only [stepLog] at h
    cases ha : setTrackedOutputs st bi with
    | error e => simp [ha] at h
    | ok st2 =>
      simp only [ha] at h
      injection h with h
      obtain ⟨_, rfl⟩ := Prod.mk.inj h
      exact hf

/-- **Untracking frees an index for good**: once an index is `None` it stays `None` through every
    successful continuation — no command can rebind it (`add` on it raises `IndexError`), and
    `track_wire` never reuses it (it appends). -/
theorem untrack_permanent (bi : Nat) (i : Nat) : ∀ (p : List TCmd) (st st' : BuildState) (evs : List Ev),
    IsTracked st bi → runLog bi st p = .ok (st', evs) →
    (trackedOf st bi)[i]? = some none → (trackedOf st' bi)[i]? = some none := by
  intro p
  induction p with
  | nil =>
    intro st st' evs _ h hf
    simp only [runLog] at h
    injection h with h
    obtain ⟨rfl, _⟩ := Prod.mk.inj h
    exact hf
  | cons c cs ih =>
    intro st st' evs ht h hf
    simp only [runLog] at h
    cases hs : stepLog bi st c with
    | error e => simp [hs] at h
    | ok x =>
      obtain ⟨st1, ev1⟩ := x
      simp only [hs] at h
      cases hrest : runLog bi st1 cs with
      | error e => simp [hrest] at h
      | ok y =>
        obtain ⟨st2, ev2⟩ := y
        simp only [hrest] at h
        injection h with h
        obtain ⟨rfl, _⟩ := Prod.mk.inj h
        exact ih st1 st2 ev2 (binding_step bi st st1 c ev1 ht hs).1 hrest (freed_step bi st st1 c ev1 i ht hs hf)

/-- and `untrack_wire` itself puts `None` there -/
theorem untrack_frees (bi : Nat) (st st1 : BuildState) (i : Nat) (w : Wire)
    (h : untrackWire st bi i = .ok (st1, w)) : (trackedOf st1 bi)[i]? = some none := by
  unfold untrackWire at h
  cases hr : st.getB bi with
  | error e => simp [hr] at h
  | ok r =>
    simp only [hr] at h
    cases htw : trackedWire r.tracked i with
    | error e => simp [htw] at h
    | ok w' =>
      simp only [htw] at h
      injection h with h
      obtain ⟨rfl, _⟩ := Prod.mk.inj h
      rw [trackedOf_of_getB _ bi _ (getB_setB st bi r _ hr)]
      have := (trackedWire_ok r.tracked i w').mp htw
      have hlt : i < r.tracked.length := (List.getElem?_eq_some_iff.mp this).1
      simp [hlt]

theorem filterMap_id_range {α : Type} : ∀ (l : List (Option α)),
    l.filterMap id = (List.range l.length).filterMap (fun i => (l[i]?).join) := by
  intro l
  induction l with
  | nil => rfl
  | cons x xs ih =>
    rw [List.length_cons, List.range_succ_eq_map, List.filterMap_cons, List.filterMap_cons, List.filterMap_map, ih]
    have : ((fun i => ((x :: xs)[i]?).join) ∘ Nat.succ) = (fun i => (xs[i]?).join) := by
      funext i; simp
    rw [this]
    cases x <;> simp

/-- **Outputs in index order**: `set_tracked_outputs` is `set_outputs` of the tracked wires that are not
    `None`, in increasing index order; `set_indexed_outputs(i₁, …, iₖ)` is `set_outputs` of the wires
    those indices denote, in the order given. -/
theorem outputs_in_index_order (st : BuildState) (bi : Nat) (r : BRec) (hr : st.getB bi = .ok r) :
    setTrackedOutputs st bi =
      setOutputsDfg st bi ((List.range r.tracked.length).filterMap (fun i => (r.tracked[i]?).join)) := by
  have : r.tracked.filterMap id = (List.range r.tracked.length).filterMap (fun i => (r.tracked[i]?).join) :=
    filterMap_id_range r.tracked
  simp [setTrackedOutputs, hr, this]

theorem indexed_outputs_resolved (st : BuildState) (bi : Nat) (r : BRec) (is : List Nat) (ws : List Wire)
    (hr : st.getB bi = .ok r) (hw : ∀ (k i : Nat), is[k]? = some i → ∃ w, ws[k]? = some w ∧ r.tracked[i]? = some (some w))
    (hl : ws.length = is.length) :
    setIndexedOutputs st bi (is.map .idx) = setOutputsDfg st bi ws := by
  have : toWires r.tracked (is.map .idx) = .ok ws := by
    clear hr
    induction is generalizing ws with
    | nil => cases ws with
      | nil => rfl
      | cons _ _ => simp at hl
    | cons i is ih =>
      cases ws with
      | nil => simp at hl
      | cons w ws =>
        obtain ⟨w', e1, e2⟩ := hw 0 i rfl
        simp at e1; subst e1
        have hrest := ih ws (fun k j hk => hw (k + 1) j (by simpa using hk)) (by simpa using hl)
        simp [toWires, trackedWire, e2, hrest]
  simp [setIndexedOutputs, hr, this]

end HugrVerif.Build.Tracked
