/- Helper lemmas for C19 (qsystem results). -/
import HugrVerif.Qsys

namespace HugrVerif.Qsys
open HugrVerif.Py

/-- Decidable equality of outcomes (for the closed `example`s in `Props/C19.lean`). -/
instance instDecEqExcept {ε α : Type} [DecidableEq ε] [DecidableEq α] : DecidableEq (Except ε α)
  | .ok a, .ok b => if h : a = b then isTrue (by rw [h]) else isFalse (by intro h'; cases h'; exact h rfl)
  | .error a, .error b => if h : a = b then isTrue (by rw [h]) else isFalse (by intro h'; cases h'; exact h rfl)
  | .ok _, .error _ => isFalse (by intro h; cases h)
  | .error _, .ok _ => isFalse (by intro h; cases h)

/-! ### A. The tag matcher -/

/-- The declarative reading of `^([a-z][\w_]*)\[(\d+)\]$` under `re.match` (ASCII):
    `t` is `name`, `[`, a non-empty run of digits `ds`, `]`, optionally one final newline;
    `name` is a lower-case letter followed by word characters; `n = int(ds)`. -/
def IndexedTag (t name : Str) (n : Nat) : Prop :=
  ∃ c cs ds, name = c :: cs ∧ isLower c = true ∧ (∀ x ∈ cs, isWord x = true) ∧
    ds ≠ [] ∧ (∀ x ∈ ds, isDigit x = true) ∧ n = digitsVal ds ∧
    (t = name ++ '[' :: ds ++ [']'] ∨ t = name ++ '[' :: ds ++ [']', '\n'])

theorem splitBracket_some (t a b : List Char) :
    splitBracket t = some (a, b) ↔ t = a ++ '[' :: b ∧ '[' ∉ a := by
  induction t generalizing a b with
  | nil => simp [splitBracket]
  | cons c cs ih =>
    unfold splitBracket
    by_cases hc : c = '['
    · subst hc
      cases a with
      | nil => simp
      | cons x xs => simp; intro h; subst h; simp
    · simp only [hc, if_false]
      cases hs : splitBracket cs with
      | none =>
        simp only [reduceCtorEq, false_iff]
        rintro ⟨h1, h2⟩
        cases a with
        | nil => simp at h1; exact hc h1.1
        | cons x xs =>
          simp at h1
          have := (ih xs b).mpr ⟨h1.2, by simp at h2; exact h2.2⟩
          rw [hs] at this; cases this
      | some p =>
        obtain ⟨a', b'⟩ := p
        have h' := (ih a' b').mp hs
        simp only [Option.some.injEq, Prod.mk.injEq]
        constructor
        · rintro ⟨rfl, rfl⟩
          refine ⟨by simp [h'.1], ?_⟩
          simp only [List.mem_cons, not_or]
          exact ⟨fun h => hc h.symm, h'.2⟩
        · rintro ⟨h1, h2⟩
          cases a with
          | nil => simp at h1; exact absurd h1.1 hc
          | cons x xs =>
            simp at h1 h2
            have := (ih xs b).mpr ⟨h1.2, h2.2⟩
            rw [hs] at this
            simp at this
            simp [h1.1, this.1, this.2]

theorem takeDigits_append (l : List Char) :
    (takeDigits l).1 ++ (takeDigits l).2 = l ∧ (∀ c ∈ (takeDigits l).1, isDigit c = true) ∧
    (∀ c, (takeDigits l).2.head? = some c → isDigit c = false) := by
  induction l with
  | nil => simp [takeDigits]
  | cons c cs ih =>
    unfold takeDigits
    by_cases h : isDigit c = true
    · simp only [h, if_true]
      refine ⟨by simp [ih.1], ?_, ih.2.2⟩
      intro x hx
      simp at hx
      rcases hx with rfl | hx
      · exact h
      · exact ih.2.1 x hx
    · simp [h]

theorem takeDigits_spec (ds r : List Char) (hd : ∀ c ∈ ds, isDigit c = true)
    (hr : ∀ c, r.head? = some c → isDigit c = false) : takeDigits (ds ++ r) = (ds, r) := by
  induction ds with
  | nil =>
    cases r with
    | nil => simp [takeDigits]
    | cons c cs => simp [takeDigits, hr c (by simp)]
  | cons d ds ih =>
    have h1 := hd d (by simp)
    have h2 := ih (fun c hc => hd c (by simp [hc]))
    simp [takeDigits, h1, h2]

theorem isWord_ne_bracket (c : Char) (h : isWord c = true) : c ≠ '[' := by
  intro hc; subst hc; revert h; decide
theorem isLower_ne_bracket (c : Char) (h : isLower c = true) : c ≠ '[' := by
  intro hc; subst hc; revert h; decide

theorem parseTag_iff (t name : Str) (n : Nat) : parseTag t = some (name, n) ↔ IndexedTag t name n := by
  constructor
  · intro h
    unfold parseTag at h
    split at h
    · cases h
    · rename_i nm rest hs
      split at h
      · cases h
      · rename_i c cs
        split at h
        · rename_i hname
          dsimp only at h
          split at h
          · rename_i htail
            simp only [Option.some.injEq, Prod.mk.injEq] at h
            obtain ⟨rfl, rfl⟩ := h
            have hsp := (splitBracket_some t (c :: cs) rest).mp hs
            have htd := takeDigits_append rest
            simp only [Bool.and_eq_true, List.all_eq_true] at hname
            simp only [Bool.and_eq_true, Bool.not_eq_true', Bool.or_eq_true, beq_iff_eq,
              List.isEmpty_eq_false_iff] at htail
            refine ⟨c, cs, (takeDigits rest).1, rfl, hname.1, hname.2, htail.1, htd.2.1, rfl, ?_⟩
            rcases htail.2 with h2 | h2
            · left; rw [hsp.1, ← h2]; simp [htd.1]
            · right; rw [hsp.1, ← h2]; simp [htd.1]
          · cases h
        · cases h
  · rintro ⟨c, cs, ds, rfl, hc, hcs, hds, hdig, rfl, ht⟩
    have hnb : '[' ∉ c :: cs := by
      simp only [List.mem_cons, not_or]
      exact ⟨fun h => isLower_ne_bracket c hc h.symm, fun h => isWord_ne_bracket _ (hcs _ h) rfl⟩
    have hname : (isLower c && cs.all isWord) = true := by
      simp only [Bool.and_eq_true, List.all_eq_true]; exact ⟨hc, hcs⟩
    have hdne : (takeDigits (ds ++ [']'])).1 = ds ∧ (takeDigits (ds ++ [']'])).2 = [']'] := by
      have := takeDigits_spec ds [']'] hdig (by simp; decide)
      simp [this]
    have hdne2 : (takeDigits (ds ++ [']', '\n'])).1 = ds ∧ (takeDigits (ds ++ [']', '\n'])).2 = [']', '\n'] := by
      have := takeDigits_spec ds [']', '\n'] hdig (by simp; decide)
      simp [this]
    have hemp : ds.isEmpty = false := by cases ds <;> simp_all
    rcases ht with ht | ht
    · have hs : splitBracket t = some (c :: cs, ds ++ [']']) :=
        (splitBracket_some _ _ _).mpr ⟨by simp [ht], hnb⟩
      simp [parseTag, hs, hname, hdne.1, hdne.2, hemp]
    · have hs : splitBracket t = some (c :: cs, ds ++ [']', '\n']) :=
        (splitBracket_some _ _ _).mpr ⟨by simp [ht], hnb⟩
      simp [parseTag, hs, hname, hdne2.1, hdne2.2, hemp]

/-! ### B. `to_register_bits` simulates the replay -/

/-- Map the values of a dict. -/
def mapVals {β γ : Type} (f : β → γ) (d : Dict Str β) : Dict Str γ := d.map fun p => (p.1, f p.2)

theorem get_mapVals {β γ : Type} (f : β → γ) (k : Str) (d : Dict Str β) :
    Dict.get k (mapVals f d) = (Dict.get k d).map f := by
  induction d with
  | nil => simp [mapVals, Dict.get]
  | cons hd t ih =>
    obtain ⟨a, b⟩ := hd
    simp only [mapVals, List.map_cons, Dict.get] at ih ⊢
    split <;> simp_all

theorem set_mapVals {β γ : Type} (f : β → γ) (k : Str) (v : β) (d : Dict Str β) :
    Dict.set k (f v) (mapVals f d) = mapVals f (Dict.set k v d) := by
  induction d with
  | nil => simp [mapVals, Dict.set]
  | cons hd t ih =>
    obtain ⟨a, b⟩ := hd
    simp only [mapVals, List.map_cons, Dict.set] at ih ⊢
    split <;> simp_all

theorem keys_mapVals {β γ : Type} (f : β → γ) (d : Dict Str β) : Dict.keys (mapVals f d) = Dict.keys d := by
  simp [mapVals, Dict.keys, Function.comp_def]

def bitStr (b : Bool) : Str := [bitChar b]

/-- The model's `reg_bits` state that corresponds to a register map of the specification. -/
def encMap (m : RegMap) : Dict Str (List Str) := mapVals (fun bits => bits.map bitStr) m

theorem castBit_eq (d : Data) :
    castBit d = match asBit d with
      | .ok b => .ok (bitStr b)
      | .error e => .error e := by
  cases d with
  | list xs => simp [castBit, asBit]
  | prim p =>
    cases p with
    | float s => simp [castBit, asBit]
    | bool b => cases b <;> simp [castBit, asBit, bitStr, bitChar]
    | int n =>
      simp only [castBit, asBit]
      by_cases h0 : n = 0
      · simp [h0, bitStr, bitChar]
      · by_cases h1 : n = 1
        · simp [h1, bitStr, bitChar]
        · simp [h0, h1]

theorem castBits_eq (vs : List Data) :
    castBits vs = match asBits vs with
      | .ok bs => .ok (bs.map bitStr)
      | .error e => .error e := by
  induction vs with
  | nil => simp [castBits, asBits]
  | cons v vs ih =>
    simp only [castBits, asBits, castBit_eq v, ih]
    cases asBit v <;> simp
    cases asBits vs <;> simp

theorem stepBits_enc (m : RegMap) (e : Entry) :
    stepBits (encMap m) e = match write m e with
      | .ok m' => .ok (encMap m')
      | .error err => .error err := by
  unfold stepBits write
  cases hp : parseTag e.1 with
  | some p =>
    obtain ⟨r, n⟩ := p
    simp only [castBit_eq e.2]
    cases asBit e.2 with
    | error err => simp
    | ok b =>
      simp only [encMap, get_mapVals]
      cases hg : Dict.get r m with
      | none =>
        simp only [Option.map_none, List.length_replicate, ge_iff_le]
        have : ¬ (n + 1 ≤ n) := by omega
        simp only [writeBit, List.length_nil, Nat.sub_zero, List.nil_append]
        rw [← set_mapVals]
        congr 2
        simp [this, List.map_set, bitStr, bitChar]
      | some l =>
        simp only [Option.map_some, List.length_map, writeBit]
        rw [← set_mapVals]
        congr 2
        by_cases hn : n ≥ l.length
        · simp only [hn, if_true, List.map_set, List.map_append, List.map_replicate]
          have : n - l.length + 1 = n + 1 - l.length := by omega
          simp [this, bitStr, bitChar]
        · have h0 : n + 1 - l.length = 0 := by omega
          simp [hn, h0, List.map_set]
  | none =>
    cases hd : e.2 with
    | list vs =>
      simp only [castBits_eq vs]
      cases asBits vs with
      | error err => simp
      | ok bs => simp [encMap, set_mapVals]
    | prim p =>
      simp only [castBit_eq (.prim p)]
      cases asBit (.prim p) with
      | error err => simp
      | ok b => simp [encMap, ← set_mapVals]

theorem loopBits_enc (es : List Entry) (m : RegMap) :
    loopBits es (encMap m) = match replayFrom es m with
      | .ok m' => .ok (encMap m')
      | .error err => .error err := by
  induction es generalizing m with
  | nil => simp [loopBits, replayFrom]
  | cons e es ih =>
    simp only [loopBits, replayFrom, stepBits_enc m e]
    cases write m e with
    | error err => simp
    | ok m' => simp [ih m']

theorem flatten_bitStr (bs : List Bool) : (bs.map bitStr).flatten = render bs := by
  induction bs with
  | nil => simp [render]
  | cons b bs ih => simp_all [render, bitStr]

theorem joinBits_enc (m : RegMap) : joinBits (encMap m) = renderMap m := by
  simp [joinBits, encMap, mapVals, renderMap, flatten_bitStr, Function.comp_def]

/-! ### C. Which inputs are rejected -/

/-- The bits: the ints 0 and 1, and the bools. -/
def IsBit (d : Data) : Prop := d = .prim (.int 0) ∨ d = .prim (.int 1) ∨ ∃ b, d = .prim (.bool b)

/-- What one entry must carry: `name[n]` one bit; any other tag a bit or a flat list of bits. -/
def EntryOk (e : Entry) : Prop :=
  match parseTag e.1 with
  | some _ => IsBit e.2
  | none =>
    match e.2 with
    | .list vs => ∀ v ∈ vs, IsBit v
    | d => IsBit d

theorem asBit_error_iff (d : Data) : asBit d = .error {} ↔ ¬ IsBit d := by
  cases d with
  | list xs => simp [asBit, IsBit]
  | prim p =>
    cases p with
    | float s => simp [asBit, IsBit]
    | bool b => simp [asBit, IsBit]
    | int n =>
      simp only [asBit, IsBit]
      by_cases h0 : n = 0
      · simp [h0]
      · by_cases h1 : n = 1
        · simp [h1]
        · simp [h0, h1]

theorem asBit_ok_iff (d : Data) : (∃ b, asBit d = .ok b) ↔ IsBit d := by
  have := asBit_error_iff d
  cases h : asBit d with
  | ok b => simp [h] at this ⊢; exact this
  | error e => cases e; simp [h] at this ⊢; exact this

theorem asBits_error_iff (vs : List Data) : asBits vs = .error {} ↔ ¬ ∀ v ∈ vs, IsBit v := by
  induction vs with
  | nil => simp [asBits]
  | cons v vs ih =>
    have hv := asBit_error_iff v
    simp only [asBits]
    cases h : asBit v with
    | error e => cases e; simp [h] at hv; simp [hv]
    | ok b =>
      simp [h] at hv
      cases h2 : asBits vs with
      | error e => cases e; simp [h2] at ih; simp; intro _; exact ih
      | ok bs => simp [h2] at ih; simp [hv]; exact ih

theorem write_error_iff (m : RegMap) (e : Entry) : write m e = .error {} ↔ ¬ EntryOk e := by
  unfold write EntryOk
  cases hp : parseTag e.1 with
  | some p =>
    obtain ⟨r, n⟩ := p
    have := asBit_error_iff e.2
    cases h : asBit e.2 with
    | error err => cases err; simp [h] at this; simp [this]
    | ok b => simp [h] at this; simp [this]
  | none =>
    cases hd : e.2 with
    | list vs =>
      have := asBits_error_iff vs
      cases h : asBits vs with
      | error err => cases err; simp [h] at this ⊢; exact this
      | ok bs => simp [h] at this ⊢; exact this
    | prim p =>
      have := asBit_error_iff (.prim p)
      cases h : asBit (.prim p) with
      | error err => cases err; simp [h] at this ⊢; exact this
      | ok b => simp [h] at this ⊢; exact this

theorem replayFrom_error_iff (es : List Entry) (m : RegMap) :
    replayFrom es m = .error {} ↔ ∃ e ∈ es, ¬ EntryOk e := by
  induction es generalizing m with
  | nil => simp [replayFrom]
  | cons e es ih =>
    have hw := write_error_iff m e
    simp only [replayFrom]
    cases h : write m e with
    | error err => cases err; simp [h] at hw; simp [hw]
    | ok m' =>
      simp [h] at hw
      simp [ih m', hw]

/-! ### D. `defaultdict(list)` appends, `Counter` -/

/-- The list stored under a key of a `defaultdict(list)`: empty when the key is absent. -/
def orNil {β : Type} : Option (List β) → List β
  | some l => l
  | none => []

theorem get_appendAt {β : Type} (k k' : Str) (v : β) (d : Dict Str (List β)) :
    Dict.get k' (appendAt k v d) =
      if k' = k then some (orNil (Dict.get k d) ++ [v])
      else Dict.get k' d := by
  unfold appendAt
  cases h : Dict.get k d <;> simp [Dict.get_set, orNil]

theorem nodup_appendAt {β : Type} (k : Str) (v : β) (d : Dict Str (List β)) (h : Dict.NodupKeys d) :
    Dict.NodupKeys (appendAt k v d) := by
  unfold appendAt
  cases Dict.get k d <;> exact Dict.nodup_set _ _ _ h

/-- All values carried by tag `t`, in entry order. -/
def valuesOf (t : Str) (es : List Entry) : List Data :=
  es.filterMap fun e => if e.1 = t then some e.2 else none

/-- `some l` for a non-empty list, `none` (key absent) for the empty one. -/
def nonEmpty {β : Type} (l : List β) : Option (List β) :=
  match l with
  | [] => none
  | _ :: _ => some l

theorem nonEmpty_append_singleton {β : Type} (l : List β) (x : β) : nonEmpty (l ++ [x]) = some (l ++ [x]) := by
  cases l <;> simp [nonEmpty]

theorem collateFrom_get (es : List Entry) (tags : Dict Str (List Data)) (t : Str) :
    Dict.get t (collateFrom es tags) =
      match Dict.get t tags with
      | some l => some (l ++ valuesOf t es)
      | none => nonEmpty (valuesOf t es) := by
  induction es generalizing tags with
  | nil => cases h : Dict.get t tags <;> simp [collateFrom, valuesOf, h, nonEmpty]
  | cons e es ih =>
    simp only [collateFrom, ih, get_appendAt]
    by_cases he : t = e.1
    · subst he
      simp only [if_true, valuesOf, List.filterMap_cons]
      cases h : Dict.get e.1 tags with
      | none => simp [nonEmpty, orNil]
      | some l => simp [orNil]
    · have he' : ¬ e.1 = t := fun h => he h.symm
      simp [he, he', valuesOf]

theorem collateFrom_nodup (es : List Entry) (tags : Dict Str (List Data)) (h : Dict.NodupKeys tags) :
    Dict.NodupKeys (collateFrom es tags) := by
  induction es generalizing tags with
  | nil => exact h
  | cons e es ih => exact ih _ (nodup_appendAt _ _ _ h)

section Counter
variable {α : Type} [DecidableEq α]

theorem get_bump (x y : α) (c : Dict α Nat) :
    Dict.get y (bump x c) =
      if y = x then some ((match Dict.get x c with | some n => n | none => 0) + 1) else Dict.get y c := by
  unfold bump
  cases h : Dict.get x c <;> simp [Dict.get_set]

theorem counterFrom_get (xs : List α) (c : Dict α Nat) (y : α) :
    Dict.get y (counterFrom xs c) =
      match Dict.get y c with
      | some n => some (n + xs.count y)
      | none => if xs.count y = 0 then none else some (xs.count y) := by
  induction xs generalizing c with
  | nil => cases h : Dict.get y c <;> simp [counterFrom, h]
  | cons x xs ih =>
    simp only [counterFrom, ih, get_bump]
    by_cases hx : y = x
    · subst hx
      simp only [if_true, List.count_cons_self]
      cases h : Dict.get y c with
      | none => simp; omega
      | some n => simp; omega
    · have hx' : ¬ (x == y) = true := by simp; exact fun h => hx h.symm
      simp [hx, List.count_cons, hx']

theorem counterFrom_nodup (xs : List α) (c : Dict α Nat) (h : Dict.NodupKeys c) :
    Dict.NodupKeys (counterFrom xs c) := by
  induction xs generalizing c with
  | nil => exact h
  | cons x xs ih =>
    apply ih
    unfold bump
    cases Dict.get x c <;> exact Dict.nodup_set _ _ _ h

/-- `Counter(xs)[y]` is the number of occurrences of `y`; keys are exactly the values that occur. -/
theorem counter_get (xs : List α) (y : α) :
    Dict.get y (counter xs) = if xs.count y = 0 then none else some (xs.count y) := by
  simp [counter, counterFrom_get]

end Counter

/-! ### E. `register_bitstrings` -/

/-- The per-shot conversions, in shot order (fails if one shot does). -/
def perShotBits : List (List Entry) → Except ValueError (List (Dict Str Str))
  | [] => .ok []
  | s :: ss =>
    match toRegisterBits s with
    | .error e => .error e
    | .ok b =>
      match perShotBits ss with
      | .error e => .error e
      | .ok bs => .ok (b :: bs)

/-- The strings of register `r` over the shots that have it, in shot order. -/
def column (r : Str) (bs : List (Dict Str Str)) : List Str := bs.filterMap (Dict.get r)

/-- All shots have the same set of registers. -/
def SameKeys (bs : List (Dict Str Str)) : Prop :=
  ∀ b1 ∈ bs, ∀ b2 ∈ bs, ∀ r, r ∈ Dict.keys b1 ↔ r ∈ Dict.keys b2

/-- Every register has the same length in all shots that have it. -/
def SameLens (bs : List (Dict Str Str)) : Prop :=
  ∀ b1 ∈ bs, ∀ b2 ∈ bs, ∀ r s1 s2, Dict.get r b1 = some s1 → Dict.get r b2 = some s2 → s1.length = s2.length

/-- What the strict options must reject. -/
def Bad (sn sl : Bool) (bs : List (Dict Str Str)) : Prop :=
  (sn = true ∧ ¬ SameKeys bs) ∨ (sl = true ∧ ¬ SameLens bs)

structure Inv (done : List (Dict Str Str)) (d : Dict Str (List Str)) : Prop where
  nd : Dict.NodupKeys d
  col : ∀ r, Dict.get r d = nonEmpty (column r done)

theorem stepBits_nodup (d : Dict Str (List Str)) (e : Entry) (d1 : Dict Str (List Str))
    (h : Dict.NodupKeys d) (hs : stepBits d e = .ok d1) : Dict.NodupKeys d1 := by
  unfold stepBits at hs
  cases hp : parseTag e.1 with
  | some p =>
    obtain ⟨r, n⟩ := p
    simp only [hp] at hs
    cases hc : castBit e.2 with
    | error err => simp [hc] at hs
    | ok c => simp [hc] at hs; subst hs; exact Dict.nodup_set _ _ _ h
  | none =>
    simp only [hp] at hs
    cases hd : e.2 with
    | list vs =>
      simp only [hd] at hs
      cases hcs : castBits vs with
      | error err => simp [hcs] at hs
      | ok cs => simp [hcs] at hs; subst hs; exact Dict.nodup_set _ _ _ h
    | prim p =>
      simp only [hd] at hs
      cases hc : castBit (.prim p) with
      | error err => simp [hc] at hs
      | ok c => simp [hc] at hs; subst hs; exact Dict.nodup_set _ _ _ h

theorem loopBits_nodup (es : List Entry) (d : Dict Str (List Str)) (h : Dict.NodupKeys d) (d' : Dict Str (List Str))
    (hl : loopBits es d = .ok d') : Dict.NodupKeys d' := by
  induction es generalizing d with
  | nil => simp [loopBits] at hl; subst hl; exact h
  | cons e es ih =>
    simp only [loopBits] at hl
    cases hs : stepBits d e with
    | error err => simp [hs] at hl
    | ok d1 =>
      simp only [hs] at hl
      exact ih d1 (stepBits_nodup d e d1 h hs) hl

theorem toRegisterBits_nodup (es : List Entry) (b : Dict Str Str) (h : toRegisterBits es = .ok b) :
    Dict.NodupKeys b := by
  unfold toRegisterBits at h
  cases hl : loopBits es [] with
  | error err => simp [hl] at h
  | ok d =>
    simp [hl] at h
    subst h
    have := loopBits_nodup es [] (by simp [Dict.NodupKeys]) d hl
    simpa [Dict.NodupKeys, joinBits, Dict.keys, Function.comp_def] using this

theorem perShotBits_nodup (shots : List (List Entry)) (bs : List (Dict Str Str))
    (h : perShotBits shots = .ok bs) : ∀ b ∈ bs, Dict.NodupKeys b := by
  induction shots generalizing bs with
  | nil => simp [perShotBits] at h; subst h; simp
  | cons s ss ih =>
    simp only [perShotBits] at h
    cases h1 : toRegisterBits s with
    | error e => simp [h1] at h
    | ok b =>
      cases h2 : perShotBits ss with
      | error e => simp [h1, h2] at h
      | ok bs' =>
        simp [h1, h2] at h
        subst h
        intro x hx
        simp at hx
        rcases hx with rfl | hx
        · exact toRegisterBits_nodup s _ h1
        · exact ih bs' h2 x hx

/-- A length clash between the strings recorded so far and the items of the current shot. -/
def Clash (d : Dict Str (List Str)) (its : List (Str × Str)) : Prop :=
  ∃ r s f t, (r, s) ∈ its ∧ Dict.get r d = some (f :: t) ∧ f.length ≠ s.length

theorem mem_keys_of_mem {β : Type} (r : Str) (s : β) (its : Dict Str β) (h : (r, s) ∈ its) : r ∈ Dict.keys its :=
  List.mem_map.mpr ⟨(r, s), h, rfl⟩

/-- The inner loop: rejects exactly on a clash (under `strict_lengths`), otherwise appends
    every item of the shot to its register's list. -/
theorem shotLoop_spec (sl : Bool) (its : List (Str × Str)) (hnd : Dict.NodupKeys its)
    (d : Dict Str (List Str)) (hne : ∀ r, Dict.get r d ≠ some []) :
    (sl = true ∧ Clash d its → shotLoop sl its d = .error .valueError) ∧
    (¬ (sl = true ∧ Clash d its) → ∃ d', shotLoop sl its d = .ok d' ∧
      (Dict.NodupKeys d → Dict.NodupKeys d') ∧
      ∀ r, Dict.get r d' = match Dict.get r its with
        | some s => some (orNil (Dict.get r d) ++ [s])
        | none => Dict.get r d) := by
  induction its generalizing d with
  | nil =>
    refine ⟨?_, ?_⟩
    · rintro ⟨_, r, s, f, t, hm, _⟩; simp at hm
    · intro _; exact ⟨d, by simp [shotLoop], id, by simp [Dict.get]⟩
  | cons it rest ih =>
    obtain ⟨r0, s0⟩ := it
    have hr0 : r0 ∉ Dict.keys rest := (List.nodup_cons.mp hnd).1
    have hndr : Dict.NodupKeys rest := (List.nodup_cons.mp hnd).2
    have hget0 : Dict.get r0 rest = none := (Dict.get_none_iff r0 rest).mpr hr0
    -- the state after this item
    have hne1 : ∀ r, Dict.get r (appendAt r0 s0 d) ≠ some [] := by
      intro r
      rw [get_appendAt]
      split
      · simp
      · exact hne r
    have hclash_rest : Clash (appendAt r0 s0 d) rest ↔ ∃ r s f t, (r, s) ∈ rest ∧ Dict.get r d = some (f :: t) ∧ f.length ≠ s.length := by
      constructor
      · rintro ⟨r, s, f, t, hm, hg, hl⟩
        have : r ≠ r0 := fun h => hr0 (h ▸ mem_keys_of_mem r s rest hm)
        rw [get_appendAt] at hg
        simp [this] at hg
        exact ⟨r, s, f, t, hm, hg, hl⟩
      · rintro ⟨r, s, f, t, hm, hg, hl⟩
        have : r ≠ r0 := fun h => hr0 (h ▸ mem_keys_of_mem r s rest hm)
        refine ⟨r, s, f, t, hm, ?_, hl⟩
        rw [get_appendAt]
        simp [this, hg]
    have ih1 := ih hndr (appendAt r0 s0 d) hne1
    -- result of continuing with the rest
    have hcont : ∀ d', (∀ r, Dict.get r d' = match Dict.get r rest with
          | some s => some (orNil (Dict.get r (appendAt r0 s0 d)) ++ [s])
          | none => Dict.get r (appendAt r0 s0 d)) →
        ∀ r, Dict.get r d' = match Dict.get r ((r0, s0) :: rest) with
          | some s => some (orNil (Dict.get r d) ++ [s])
          | none => Dict.get r d := by
      intro d' h r
      rw [h r]
      by_cases hr : r = r0
      · subst hr
        simp [hget0, Dict.get, get_appendAt]
      · have hr' : ¬ r0 = r := fun h => hr h.symm
        simp [Dict.get, hr, hr', get_appendAt]
    cases sl with
    | false =>
      refine ⟨by simp, ?_⟩
      intro _
      obtain ⟨d', h1, h2, h3⟩ := ih1.2 (by simp)
      refine ⟨d', ?_, fun hd => h2 (nodup_appendAt _ _ _ hd), hcont d' h3⟩
      simp [shotLoop, h1]
    | true =>
      cases hg : Dict.get r0 d with
      | none =>
        have hiff : Clash d ((r0, s0) :: rest) ↔ Clash (appendAt r0 s0 d) rest := by
          rw [hclash_rest]
          constructor
          · rintro ⟨r, s, f, t, hm, hg', hl⟩
            simp at hm
            rcases hm with ⟨rfl, rfl⟩ | hm
            · rw [hg] at hg'; cases hg'
            · exact ⟨r, s, f, t, hm, hg', hl⟩
          · rintro ⟨r, s, f, t, hm, hg', hl⟩
            exact ⟨r, s, f, t, by simp [hm], hg', hl⟩
        refine ⟨?_, ?_⟩
        · rintro ⟨_, hc⟩
          have := ih1.1 ⟨rfl, hiff.mp hc⟩
          simp [shotLoop, hg, this]
        · intro hn
          obtain ⟨d', h1, h2, h3⟩ := ih1.2 (by simp; intro hc; exact hn ⟨rfl, hiff.mpr hc⟩)
          refine ⟨d', ?_, fun hd => h2 (nodup_appendAt _ _ _ hd), hcont d' h3⟩
          simp [shotLoop, hg, h1]
      | some l =>
        cases l with
        | nil => exact absurd hg (hne r0)
        | cons f t =>
          by_cases hlen : f.length = s0.length
          · have hiff : Clash d ((r0, s0) :: rest) ↔ Clash (appendAt r0 s0 d) rest := by
              rw [hclash_rest]
              constructor
              · rintro ⟨r, s, f', t', hm, hg', hl⟩
                simp at hm
                rcases hm with ⟨rfl, rfl⟩ | hm
                · rw [hg] at hg'; simp at hg'; exact absurd (hg'.1 ▸ hlen) hl
                · exact ⟨r, s, f', t', hm, hg', hl⟩
              · rintro ⟨r, s, f', t', hm, hg', hl⟩
                exact ⟨r, s, f', t', by simp [hm], hg', hl⟩
            refine ⟨?_, ?_⟩
            · rintro ⟨_, hc⟩
              have := ih1.1 ⟨rfl, hiff.mp hc⟩
              simp [shotLoop, hg, hlen, this]
            · intro hn
              obtain ⟨d', h1, h2, h3⟩ := ih1.2 (by simp; intro hc; exact hn ⟨rfl, hiff.mpr hc⟩)
              refine ⟨d', ?_, fun hd => h2 (nodup_appendAt _ _ _ hd), hcont d' h3⟩
              simp [shotLoop, hg, hlen, h1]
          · refine ⟨?_, ?_⟩
            · intro _
              have hb : (f.length != s0.length) = true := by simpa [bne_iff_ne] using hlen
              simp [shotLoop, hg, hb]
            · intro hn
              exact absurd ⟨rfl, r0, s0, f, t, by simp, hg, hlen⟩ hn

/-! ### F. The outer loop -/

theorem nonEmpty_eq_none {β : Type} (l : List β) : nonEmpty l = none ↔ l = [] := by
  cases l <;> simp [nonEmpty]

theorem mem_column (r : Str) (s : Str) (bs : List (Dict Str Str)) :
    s ∈ column r bs ↔ ∃ b ∈ bs, Dict.get r b = some s := by
  simp [column, List.mem_filterMap]

theorem column_snoc (r : Str) (bs : List (Dict Str Str)) (b : Dict Str Str) :
    column r (bs ++ [b]) = column r bs ++ (match Dict.get r b with | some s => [s] | none => []) := by
  simp only [column, List.filterMap_append, List.filterMap_cons, List.filterMap_nil]
  cases Dict.get r b <;> simp

theorem mem_keys_inv (done : List (Dict Str Str)) (d : Dict Str (List Str)) (h : Inv done d) (r : Str) :
    r ∈ Dict.keys d ↔ ∃ b ∈ done, r ∈ Dict.keys b := by
  have h1 := Dict.get_none_iff r d
  rw [h.col r, nonEmpty_eq_none] at h1
  constructor
  · intro hr
    have hne : column r done ≠ [] := fun hc => (h1.mp hc) hr
    obtain ⟨s, hs⟩ := List.exists_mem_of_ne_nil _ hne
    obtain ⟨b, hb, hg⟩ := (mem_column r s done).mp hs
    refine ⟨b, hb, ?_⟩
    have := Dict.get_none_iff r b
    rw [hg] at this
    simp at this
    exact this
  · rintro ⟨b, hb, hr⟩
    have hg := Dict.get_none_iff r b
    cases hgb : Dict.get r b with
    | none => exact absurd hr (hg.mp hgb)
    | some s =>
      have hm : s ∈ column r done := (mem_column r s done).mpr ⟨b, hb, hgb⟩
      have hne : column r done ≠ [] := List.ne_nil_of_mem hm
      exact Classical.byContradiction fun hr' => hne (h1.mpr hr')

theorem sameKeySet_iff (a b : List Str) : sameKeySet a b = true ↔ ∀ r, r ∈ a ↔ r ∈ b := by
  simp only [sameKeySet, Bool.and_eq_true, List.all_eq_true, List.contains_iff_mem]
  constructor
  · rintro ⟨h1, h2⟩ r; exact ⟨h1 r, h2 r⟩
  · intro h; exact ⟨fun r hr => (h r).mp hr, fun r hr => (h r).mpr hr⟩

theorem sameKeys_mono (l l' : List (Dict Str Str)) (hsub : ∀ x ∈ l', x ∈ l) (h : SameKeys l) : SameKeys l' :=
  fun b1 h1 b2 h2 r => h b1 (hsub b1 h1) b2 (hsub b2 h2) r

theorem sameLens_mono (l l' : List (Dict Str Str)) (hsub : ∀ x ∈ l', x ∈ l) (h : SameLens l) : SameLens l' :=
  fun b1 h1 b2 h2 => h b1 (hsub b1 h1) b2 (hsub b2 h2)

/-- The names check of shot `b` against the registers recorded so far. -/
theorem names_check_iff (done : List (Dict Str Str)) (d : Dict Str (List Str)) (hinv : Inv done d)
    (hsk : SameKeys done) (b : Dict Str Str) :
    (done.length > 0 ∧ sameKeySet (Dict.keys b) (Dict.keys d) = false) ↔ ¬ SameKeys (done ++ [b]) := by
  have hk := mem_keys_inv done d hinv
  constructor
  · rintro ⟨hlen, hs⟩ hall
    have : sameKeySet (Dict.keys b) (Dict.keys d) = true := by
      rw [sameKeySet_iff]
      intro r
      rw [hk r]
      constructor
      · intro hr
        cases done with
        | nil => simp at hlen
        | cons b0 t => exact ⟨b0, by simp, (hall b (by simp) b0 (by simp) r).mp hr⟩
      · rintro ⟨b', hb', hr⟩
        exact (hall b' (by simp [hb']) b (by simp) r).mp hr
    rw [this] at hs; cases hs
  · intro hns
    have hne : done ≠ [] := by
      rintro rfl
      apply hns
      intro b1 h1 b2 h2 r
      simp at h1 h2; subst h1; subst h2; exact Iff.rfl
    refine ⟨List.length_pos_iff.mpr hne, ?_⟩
    cases hs : sameKeySet (Dict.keys b) (Dict.keys d) with
    | false => rfl
    | true =>
      exfalso
      rw [sameKeySet_iff] at hs
      apply hns
      -- every earlier shot has the keys of `d`, which are those of `b`
      have hdone : ∀ b' ∈ done, ∀ r, r ∈ Dict.keys b' ↔ r ∈ Dict.keys b := by
        intro b' hb' r
        rw [hs r, hk r]
        constructor
        · intro hr; exact ⟨b', hb', hr⟩
        · rintro ⟨b'', hb'', hr⟩; exact (hsk b'' hb'' b' hb' r).mp hr
      intro b1 h1 b2 h2 r
      simp only [List.mem_append, List.mem_singleton] at h1 h2
      rcases h1 with h1 | rfl <;> rcases h2 with h2 | rfl
      · exact hsk b1 h1 b2 h2 r
      · exact hdone b1 h1 r
      · exact (hdone b2 h2 r).symm
      · exact Iff.rfl

/-- The length check of shot `b` against the strings recorded so far. -/
theorem clash_iff (done : List (Dict Str Str)) (d : Dict Str (List Str)) (hinv : Inv done d)
    (hsl : SameLens done) (b : Dict Str Str) (hb : Dict.NodupKeys b) :
    Clash d b ↔ ¬ SameLens (done ++ [b]) := by
  constructor
  · rintro ⟨r, s, f, t, hm, hg, hl⟩ hall
    rw [hinv.col r] at hg
    have hcol : column r done = f :: t := by
      cases hc : column r done with
      | nil => simp [hc, nonEmpty] at hg
      | cons x xs => simp [hc, nonEmpty] at hg; simp [hg]
    obtain ⟨b', hb', hgb'⟩ := (mem_column r f done).mp (by simp [hcol])
    have hgb : Dict.get r b = some s := (Dict.get_some_iff_mem r s b hb).mpr hm
    exact hl (hall b' (by simp [hb']) b (by simp) r f s hgb' hgb)
  · intro hns
    -- a differing pair must involve `b` and an earlier shot
    have : ∃ b' ∈ done, ∃ r s' s, Dict.get r b' = some s' ∧ Dict.get r b = some s ∧ s'.length ≠ s.length := by
      apply Classical.byContradiction
      intro hno
      apply hns
      intro b1 h1 b2 h2 r s1 s2 hg1 hg2
      simp only [List.mem_append, List.mem_singleton] at h1 h2
      rcases h1 with h1 | rfl <;> rcases h2 with h2 | rfl
      · exact hsl b1 h1 b2 h2 r s1 s2 hg1 hg2
      · exact Classical.byContradiction fun hne => hno ⟨b1, h1, r, s1, s2, hg1, hg2, hne⟩
      · exact Classical.byContradiction fun hne => hno ⟨b2, h2, r, s2, s1, hg2, hg1, fun h => hne h.symm⟩
      · rw [hg1] at hg2; cases hg2; rfl
    obtain ⟨b', hb', r, s', s, hg', hg, hne⟩ := this
    have hm : s' ∈ column r done := (mem_column r s' done).mpr ⟨b', hb', hg'⟩
    cases hc : column r done with
    | nil => simp [hc] at hm
    | cons f t =>
      obtain ⟨b'', hb'', hgf⟩ := (mem_column r f done).mp (by simp [hc])
      have hfl : f.length = s'.length := hsl b'' hb'' b' hb' r f s' hgf hg'
      refine ⟨r, s, f, t, (Dict.get_some_iff_mem r s b hb).mp hg, ?_, by omega⟩
      rw [hinv.col r, hc]; rfl

theorem inv_nil : Inv [] [] := ⟨by simp [Dict.NodupKeys], by intro r; simp [column, nonEmpty]⟩

theorem inv_ne (done : List (Dict Str Str)) (d : Dict Str (List Str)) (h : Inv done d) :
    ∀ r, Dict.get r d ≠ some [] := by
  intro r hr
  rw [h.col r] at hr
  cases hc : column r done <;> simp [hc, nonEmpty] at hr

theorem inv_step (done : List (Dict Str Str)) (d d' : Dict Str (List Str)) (h : Inv done d) (b : Dict Str Str)
    (hnd : Dict.NodupKeys d → Dict.NodupKeys d')
    (hget : ∀ r, Dict.get r d' = match Dict.get r b with
        | some s => some (orNil (Dict.get r d) ++ [s])
        | none => Dict.get r d) : Inv (done ++ [b]) d' := by
  refine ⟨hnd h.nd, ?_⟩
  intro r
  rw [hget r, column_snoc, h.col r]
  cases hb : Dict.get r b with
  | none => simp
  | some s =>
    simp only [nonEmpty_append_singleton]
    cases hc : column r done <;> simp [nonEmpty, orNil]

/-- **The loop of `register_bitstrings`**, started after the shots `done` with state `d`. -/
theorem resultLoop_spec (sn sl : Bool) (rest : List (List Entry)) (done : List (Dict Str Str))
    (d : Dict Str (List Str)) (hinv : Inv done d) (hgood : ¬ Bad sn sl done)
    (hdone : ∀ b ∈ done, Dict.NodupKeys b) :
    match perShotBits rest with
    | .error _ => resultLoop sn sl done.length rest d = .error .valueError
    | .ok bs =>
      (Bad sn sl (done ++ bs) → resultLoop sn sl done.length rest d = .error .valueError) ∧
      (¬ Bad sn sl (done ++ bs) → ∃ d', resultLoop sn sl done.length rest d = .ok d' ∧ Inv (done ++ bs) d') := by
  induction rest generalizing done d with
  | nil =>
    simp only [perShotBits, List.append_nil, resultLoop]
    exact ⟨fun h => absurd h hgood, fun _ => ⟨d, rfl, hinv⟩⟩
  | cons shot rest ih =>
    simp only [perShotBits, resultLoop]
    cases hconv : toRegisterBits shot with
    | error e => simp
    | ok b =>
      have hbnd : Dict.NodupKeys b := toRegisterBits_nodup shot b hconv
      simp only []
      have hsk : sn = true → SameKeys done := fun h => Classical.byContradiction fun hn => hgood (Or.inl ⟨h, hn⟩)
      have hsl : sl = true → SameLens done := fun h => Classical.byContradiction fun hn => hgood (Or.inr ⟨h, hn⟩)
      -- facts about `done ++ [b]`
      have hsub : ∀ bs : List (Dict Str Str), ∀ x ∈ done ++ [b], x ∈ done ++ b :: bs := by
        intro bs x hx; simp at hx ⊢; rcases hx with hx | hx <;> simp [hx]
      have hbad_mono : ∀ bs, Bad sn sl (done ++ [b]) → Bad sn sl (done ++ b :: bs) := by
        intro bs hbad
        rcases hbad with ⟨h1, h2⟩ | ⟨h1, h2⟩
        · exact Or.inl ⟨h1, fun h => h2 (sameKeys_mono _ _ (hsub bs) h)⟩
        · exact Or.inr ⟨h1, fun h => h2 (sameLens_mono _ _ (hsub bs) h)⟩
      -- the names check
      by_cases hnames : (sn && decide (done.length > 0) && !sameKeySet (Dict.keys b) (Dict.keys d)) = true
      · -- rejected by strict_names
        have hsn : sn = true := by simp at hnames; exact hnames.1.1
        have hbad1 : Bad sn sl (done ++ [b]) := by
          refine Or.inl ⟨hsn, (names_check_iff done d hinv (hsk hsn) b).mp ?_⟩
          simp at hnames
          exact ⟨hnames.1.2, hnames.2⟩
        simp only [hnames, if_true]
        cases hrest : perShotBits rest with
        | error e => simp
        | ok bs => exact ⟨fun _ => by first | rfl | trivial, fun hn => absurd (hbad_mono bs hbad1) hn⟩
      · have hnames' : ¬ (sn = true ∧ ¬ SameKeys (done ++ [b])) := by
          rintro ⟨hsn, hns⟩
          have := (names_check_iff done d hinv (hsk hsn) b).mpr hns
          apply hnames
          simp [hsn, this.1, this.2]
        simp only [hnames, Bool.false_eq_true, if_false]
        have hloop := shotLoop_spec sl b hbnd d (inv_ne done d hinv)
        by_cases hclash : sl = true ∧ Clash d b
        · -- rejected by strict_lengths
          have hbad1 : Bad sn sl (done ++ [b]) :=
            Or.inr ⟨hclash.1, (clash_iff done d hinv (hsl hclash.1) b hbnd).mp hclash.2⟩
          rw [hloop.1 hclash]
          cases hrest : perShotBits rest with
          | error e => simp
          | ok bs => exact ⟨fun _ => by first | rfl | trivial, fun hn => absurd (hbad_mono bs hbad1) hn⟩
        · obtain ⟨d', h1, h2, h3⟩ := hloop.2 hclash
          have hinv' : Inv (done ++ [b]) d' := inv_step done d d' hinv b h2 h3
          have hgood' : ¬ Bad sn sl (done ++ [b]) := by
            rintro (⟨hsn, hns⟩ | ⟨hsl', hnl⟩)
            · exact hnames' ⟨hsn, hns⟩
            · exact hclash ⟨hsl', (clash_iff done d hinv (hsl hsl') b hbnd).mpr hnl⟩
          have hdone' : ∀ x ∈ done ++ [b], Dict.NodupKeys x := by
            intro x hx; simp at hx; rcases hx with hx | rfl
            · exact hdone x hx
            · exact hbnd
          have := ih (done ++ [b]) d' hinv' hgood' hdone'
          rw [h1]
          simp only [List.length_append, List.length_cons, List.length_nil, Nat.zero_add] at this
          cases hrest : perShotBits rest with
          | error e => simp only [hrest] at this ⊢; exact this
          | ok bs => simp only [hrest, List.append_assoc, List.cons_append, List.nil_append] at this ⊢; exact this

/-! ### G. `collated_counts` -/

/-- The bits of a flattened value list (specification side). -/
def primBits : List Prim → Except ValueError (List Bool)
  | [] => .ok []
  | p :: ps =>
    match asBit (.prim p) with
    | .error e => .error e
    | .ok b =>
      match primBits ps with
      | .error e => .error e
      | .ok bs => .ok (b :: bs)

theorem castPrims_eq (ps : List Prim) :
    castPrims ps = match primBits ps with
      | .ok bs => .ok (render bs)
      | .error e => .error e := by
  induction ps with
  | nil => simp [castPrims, primBits, render]
  | cons p ps ih =>
    simp only [castPrims, primBits, castBit_eq (.prim p), ih]
    cases asBit (.prim p) <;> simp
    cases primBits ps <;> simp [render, bitStr]

theorem primBits_error_iff (ps : List Prim) : primBits ps = .error {} ↔ ∃ p ∈ ps, ¬ IsBit (.prim p) := by
  induction ps with
  | nil => simp [primBits]
  | cons p ps ih =>
    have hp := asBit_error_iff (.prim p)
    simp only [primBits]
    cases h : asBit (.prim p) with
    | error e => cases e; simp [h] at hp; simp [hp]
    | ok b =>
      simp [h] at hp
      cases h2 : primBits ps with
      | error e => cases e; simp [h2] at ih; simp; exact Or.inr ih
      | ok bs => simp [h2] at ih; simp [hp]; exact ih

theorem mem_flattenL (p : Prim) (xs : List Data) : p ∈ flattenL xs ↔ ∃ x ∈ xs, p ∈ flatten x := by
  induction xs with
  | nil => simp [flattenL]
  | cons x xs ih => simp [flattenL, ih]

theorem mem_valuesOf (v : Data) (t : Str) (es : List Entry) : v ∈ valuesOf t es ↔ (t, v) ∈ es := by
  simp only [valuesOf, List.mem_filterMap]
  constructor
  · rintro ⟨e, he, h⟩
    split at h
    · rename_i ht; simp at h; subst h; subst ht; exact he
    · cases h
  · intro h; exact ⟨(t, v), h, by simp⟩

theorem keyOf_spec (l : List (Str × List Data)) (key : List (Str × Str)) (h : keyOf l = .ok key) :
    key.map (·.1) = l.map (·.1) ∧
    ∀ t s, (t, s) ∈ key → ∃ data, (t, data) ∈ l ∧ flatBitstring data = .ok s := by
  induction l generalizing key with
  | nil => simp [keyOf] at h; subst h; simp
  | cons p l ih =>
    obtain ⟨tag, data⟩ := p
    simp only [keyOf] at h
    cases h1 : flatBitstring data with
    | error e => simp [h1] at h
    | ok s =>
      cases h2 : keyOf l with
      | error e => simp [h1, h2] at h
      | ok k =>
        simp [h1, h2] at h
        subst h
        obtain ⟨ih1, ih2⟩ := ih k h2
        refine ⟨by simp [ih1], ?_⟩
        intro t s' hm
        simp only [List.mem_cons, Prod.mk.injEq] at hm
        rcases hm with ⟨rfl, rfl⟩ | hm
        · exact ⟨data, by simp, h1⟩
        · obtain ⟨data', hd, hf⟩ := ih2 t s' hm
          exact ⟨data', by simp [hd], hf⟩

theorem keyOf_error_iff (l : List (Str × List Data)) :
    keyOf l = .error {} ↔ ∃ p ∈ l, flatBitstring p.2 = .error {} := by
  induction l with
  | nil => simp [keyOf]
  | cons p l ih =>
    obtain ⟨tag, data⟩ := p
    simp only [keyOf]
    cases h1 : flatBitstring data with
    | error e => cases e; simp [h1]
    | ok s =>
      cases h2 : keyOf l with
      | error e => cases e; simp [h2] at ih; simp [h1]; exact ih
      | ok k => simp [h2] at ih; simp [h1]; exact ih

theorem collateTags_nodup (es : List Entry) : Dict.NodupKeys (collateTags es) :=
  collateFrom_nodup es [] (by simp [Dict.NodupKeys])

theorem collateTags_get (es : List Entry) (t : Str) :
    Dict.get t (collateTags es) = nonEmpty (valuesOf t es) := by
  simp [collateTags, collateFrom_get]

theorem mem_collateTags (es : List Entry) (t : Str) (data : List Data) :
    (t, data) ∈ collateTags es ↔ data = valuesOf t es ∧ ∃ e ∈ es, e.1 = t := by
  rw [← Dict.get_some_iff_mem t data _ (collateTags_nodup es), collateTags_get]
  have hne : valuesOf t es ≠ [] ↔ ∃ e ∈ es, e.1 = t := by
    constructor
    · intro h
      obtain ⟨v, hv⟩ := List.exists_mem_of_ne_nil _ h
      exact ⟨(t, v), (mem_valuesOf v t es).mp hv, rfl⟩
    · rintro ⟨⟨t', v⟩, he, rfl⟩
      exact List.ne_nil_of_mem ((mem_valuesOf v t' es).mpr he)
  cases hv : valuesOf t es with
  | nil =>
    simp only [nonEmpty, reduceCtorEq, false_iff, not_and]
    intro _ hex
    exact (hne.mpr hex) hv
  | cons x xs =>
    simp only [nonEmpty, Option.some.injEq]
    constructor
    · intro h; exact ⟨h.symm, hne.mp (by simp [hv])⟩
    · rintro ⟨h, _⟩; exact h.symm

end HugrVerif.Qsys
