/-
  Lemmas about the builder model (`Build/Wire.lean`, `Build/State.lean`) used by `Props/C13.lean`
  and `Props/C15.lean`.
-/
import HugrVerif.Build
import HugrVerif.Proofs.Store
import HugrVerif.Proofs.StoreInv

namespace HugrVerif.Build
open HugrVerif HugrVerif.Store

/-! ### error classes that the lifts can produce -/

theorem ofStoreErr_ne_noSib (e : Store.Err) : ofStoreErr e ≠ .noSiblingAncestor := by cases e <;> simp [ofStoreErr]
theorem ofOpErr_ne_noSib (e : OpErr) : ofOpErr e ≠ .noSiblingAncestor := by cases e <;> simp [ofOpErr]
theorem ofStoreErr_ne_notInCfg (e : Store.Err) : ofStoreErr e ≠ .notInSameCfg := by cases e <;> simp [ofStoreErr]
theorem ofOpErr_ne_notInCfg (e : OpErr) : ofOpErr e ≠ .notInSameCfg := by cases e <;> simp [ofOpErr]

theorem liftS_error {α : Type} (x : Except Store.Err α) (e : BuildErr) (h : liftS x = .error e) :
    ∃ e', e = ofStoreErr e' := by
  cases x with
  | ok a => simp [liftS] at h
  | error e' => simp [liftS] at h; exact ⟨e', h.symm⟩

theorem getNode_error (s : St) (i : Nat) (e : Store.Err) (h : Store.getNode s i = .error e) : e = .keyError := by
  unfold Store.getNode at h
  split at h
  · cases h
  · injection h with h; exact h.symm

theorem nodeParent_error (s : St) (i : Nat) (e : BuildErr) (h : nodeParent s i = .error e) : e = .keyError := by
  unfold nodeParent at h
  cases hg : Store.getNode s i with
  | ok d => simp [hg] at h
  | error e' =>
    simp only [hg] at h
    injection h with h
    rw [← h, getNode_error s i e' hg]; rfl

theorem nodeOp_error (s : St) (i : Nat) (e : BuildErr) (h : nodeOp s i = .error e) : e = .keyError := by
  unfold nodeOp at h
  cases hg : Store.getNode s i with
  | ok d => simp [hg] at h
  | error e' =>
    simp only [hg] at h
    injection h with h
    rw [← h, getNode_error s i e' hg]; rfl

/-! ### the ancestor relation and `_ancestral_sibling` -/

/-- `Anc s a b`: `b` is `a` or an ancestor of `a` (reflexive–transitive closure of `parent`). -/
inductive Anc (s : St) : Nat → Nat → Prop where
  | refl (a : Nat) : Anc s a a
  | step (a p b : Nat) (hp : nodeParent s a = .ok (some p)) (h : Anc s p b) : Anc s a b

theorem ancSibLoop_some (s : St) (sp : Option Nat) : ∀ (fuel tgt a : Nat),
    ancSibLoop s sp fuel tgt = .ok (some a) →
    ∃ p, sp = some p ∧ Anc s tgt a ∧ nodeParent s a = .ok (some p) := by
  intro fuel
  induction fuel with
  | zero => intro tgt a h; simp [ancSibLoop] at h
  | succ fuel ih =>
    intro tgt a h
    unfold ancSibLoop at h
    cases hp : nodeParent s tgt with
    | error e => simp [hp] at h
    | ok po =>
      cases po with
      | none => simp [hp] at h
      | some tp =>
        simp only [hp] at h
        by_cases hc : sp = some tp
        · simp only [hc, if_true] at h
          injection h with h; injection h with h; subst h
          exact ⟨tp, hc, Anc.refl _, hp⟩
        · simp only [hc, if_false] at h
          obtain ⟨p, e1, e2, e3⟩ := ih tp a h
          exact ⟨p, e1, Anc.step tgt tp a hp e2, e3⟩

theorem ancSibLoop_none (s : St) (sp : Option Nat) : ∀ (fuel tgt : Nat),
    ancSibLoop s sp fuel tgt = .ok none →
    ∀ a p, Anc s tgt a → nodeParent s a = .ok (some p) → sp ≠ some p := by
  intro fuel
  induction fuel with
  | zero => intro tgt h; simp [ancSibLoop] at h
  | succ fuel ih =>
    intro tgt h a p hanc hpa
    unfold ancSibLoop at h
    cases hp : nodeParent s tgt with
    | error e => simp [hp] at h
    | ok po =>
      cases po with
      | none =>
        -- `tgt` is a root: the only ancestor-or-self is `tgt`, which has no parent
        cases hanc with
        | refl => rw [hp] at hpa; cases hpa
        | step _ q _ hq _ => rw [hp] at hq; cases hq
      | some tp =>
        simp only [hp] at h
        by_cases hc : sp = some tp
        · simp [hc] at h
        · simp only [hc, if_false] at h
          cases hanc with
          | refl => rw [hp] at hpa; injection hpa with hpa; injection hpa with hpa; subst hpa; exact hc
          | step _ q _ hq hrest =>
            rw [hp] at hq; injection hq with hq; injection hq with hq; subst hq
            exact ih tp h a p hrest hpa

/-! ### `wireUpPortBase` never reports NoSiblingAncestor once the ancestor is found -/

theorem getDataflowType_ne_noSib (s : St) (w : Wire) : getDataflowType s w ≠ .error .noSiblingAncestor := by
  unfold getDataflowType
  cases h : nodeOp s w.1 with
  | error e => simp; intro hc; have := nodeOp_error s w.1 e h; rw [this] at hc; cases hc
  | ok op =>
    simp only
    cases h2 : Op.hugrPortType op .out w.2 with
    | error e => simp; exact fun hc => ofOpErr_ne_noSib e hc
    | ok o => cases o <;> simp

theorem getDataflowType_ne_notInCfg (s : St) (w : Wire) : getDataflowType s w ≠ .error .notInSameCfg := by
  unfold getDataflowType
  cases h : nodeOp s w.1 with
  | error e => simp; intro hc; have := nodeOp_error s w.1 e h; rw [this] at hc; cases hc
  | ok op =>
    simp only
    cases h2 : Op.hugrPortType op .out w.2 with
    | error e => simp; exact fun hc => ofOpErr_ne_notInCfg e hc
    | ok o => cases o <;> simp

theorem liftS_ne_noSib {α : Type} (x : Except Store.Err α) : liftS x ≠ .error .noSiblingAncestor := by
  cases x with
  | ok a => simp [liftS]
  | error e => simp [liftS]; exact fun hc => ofStoreErr_ne_noSib e hc

theorem liftS_ne_notInCfg {α : Type} (x : Except Store.Err α) : liftS x ≠ .error .notInSameCfg := by
  cases x with
  | ok a => simp [liftS]
  | error e => simp [liftS]; exact fun hc => ofStoreErr_ne_notInCfg e hc

theorem linkPort_ne_noSib (s : St) (anc node off : Nat) (w : Wire) :
    linkPort s anc node off w ≠ .error .noSiblingAncestor := by
  unfold linkPort
  intro h
  split at h
  · rename_i e he
    injection h with h; subst h
    split at he
    · exact liftS_ne_noSib _ he
    · cases he
  · rename_i s1 _
    split at h
    · rename_i e he
      injection h with h; subst h
      exact liftS_ne_noSib _ he
    · rename_i s2 _
      split at h
      · rename_i e he
        injection h with h; subst h
        exact getDataflowType_ne_noSib _ _ he
      · cases h

theorem linkPort_ne_notInCfg (s : St) (anc node off : Nat) (w : Wire) :
    linkPort s anc node off w ≠ .error .notInSameCfg := by
  unfold linkPort
  intro h
  split at h
  · rename_i e he
    injection h with h; subst h
    split at he
    · exact liftS_ne_notInCfg _ he
    · cases he
  · rename_i s1 _
    split at h
    · rename_i e he
      injection h with h; subst h
      exact liftS_ne_notInCfg _ he
    · rename_i s2 _
      split at h
      · rename_i e he
        injection h with h; subst h
        exact getDataflowType_ne_notInCfg _ _ he
      · cases h

theorem ancSibLoop_error (s : St) (sp : Option Nat) : ∀ (fuel tgt : Nat) (e : BuildErr),
    ancSibLoop s sp fuel tgt = .error e → e = .keyError ∨ e = .fuel := by
  intro fuel
  induction fuel with
  | zero => intro tgt e h; simp [ancSibLoop] at h; exact Or.inr h.symm
  | succ fuel ih =>
    intro tgt e h
    unfold ancSibLoop at h
    cases hp : nodeParent s tgt with
    | error e' =>
      simp only [hp] at h
      injection h with h; subst h
      exact Or.inl (nodeParent_error s tgt _ hp)
    | ok po =>
      cases po with
      | none => simp [hp] at h
      | some tp =>
        simp only [hp] at h
        by_cases hc : sp = some tp
        · simp [hc] at h
        · simp only [hc, if_false] at h; exact ih tp e h

theorem ancestralSibling_error (s : St) (src tgt : Nat) (e : BuildErr)
    (h : ancestralSibling s src tgt = .error e) : e = .keyError ∨ e = .fuel := by
  unfold ancestralSibling at h
  cases hp : nodeParent s src with
  | error e' =>
    simp only [hp] at h
    injection h with h; subst h
    exact Or.inl (nodeParent_error s src _ hp)
  | ok sp =>
    simp only [hp] at h
    exact ancSibLoop_error s sp _ _ e h

/-! ### small facts used by `Props/C13.lean` -/

theorem pyGet_nat {α : Type} (l : List α) (k : Nat) : pyGet l (k : Int) = l[k]? := by
  simp [pyGet, Ty.pyIndex]

theorem pySet_nat {α : Type} (l : List α) (k : Nat) (v : α) : pySet l (k : Int) v = l.set k v := by
  simp [pySet]

theorem getB_setB (st : BuildState) (bi : Nat) (r r' : BRec) (h : st.getB bi = .ok r) :
    (st.setB bi r').getB bi = .ok r' := by
  unfold BuildState.getB at h ⊢
  unfold BuildState.setB
  cases hb : st.builders[bi]? with
  | none => simp [hb] at h
  | some x =>
    have hlt : bi < st.builders.length := (List.getElem?_eq_some_iff.mp hb).1
    simp [hlt]

theorem addLink_nodeOp (s s1 : St) (a b : Port) (h : Store.addLink s a b = .ok s1) (i : Nat) :
    nodeOp s1 i = nodeOp s i := by
  obtain ⟨G, _, _⟩ := Store.addLink_nodes s s1 a b h
  unfold nodeOp
  cases hg : Store.getNode s i with
  | ok d =>
    obtain ⟨d', e1, g⟩ := G.fwd i d hg
    simp [e1, g.op]
  | error e =>
    cases hg1 : Store.getNode s1 i with
    | ok d' =>
      obtain ⟨d, hd⟩ := G.bwd i d' hg1
      rw [hg] at hd; cases hd
    | error e' =>
      rw [getNode_error s i e hg, getNode_error s1 i e' hg1]

theorem mapM_error_first {α β ε : Type} (f : α → Except ε β) (x : α) (e : ε) (post : List α) :
    ∀ (pre : List α), (∀ a ∈ pre, ∃ b, f a = .ok b) → f x = .error e →
    (pre ++ x :: post).mapM f = .error e := by
  intro pre
  induction pre with
  | nil => intro _ hx; simp [List.mapM_cons, hx, Bind.bind, Except.bind]
  | cons a pre ih =>
    intro hpre hx
    obtain ⟨b, hb⟩ := hpre a List.mem_cons_self
    have := ih (fun a' ha' => hpre a' (List.mem_cons_of_mem _ ha')) hx
    simp [List.mapM_cons, hb, this, Bind.bind, Except.bind]

/-! ### growth of port counts leaves the hierarchy alone; completion of an operation leaves the links alone -/

theorem grow_nodeParent (s s' : St) (G : StoreGrow s s') (i : Nat) : nodeParent s' i = nodeParent s i := by
  unfold nodeParent
  cases hg : Store.getNode s i with
  | ok d =>
    obtain ⟨d', e1, g⟩ := G.fwd i d hg
    simp [e1, g.parent]
  | error e =>
    cases hg1 : Store.getNode s' i with
    | ok d' =>
      obtain ⟨d, hd⟩ := G.bwd i d' hg1
      rw [hg] at hd; cases hd
    | error e' =>
      rw [getNode_error s i e hg, getNode_error s' i e' hg1]

theorem grow_anc (s s' : St) (G : StoreGrow s s') (a b : Nat) (h : Anc s' a b) : Anc s a b := by
  induction h with
  | refl a => exact .refl a
  | step a p b hp _ ih => exact .step a p b (by rw [← grow_nodeParent s s' G a]; exact hp) ih

theorem modifyNode_links (s s' : St) (i : Nat) (f : NodeData Op Serial.Meta → NodeData Op Serial.Meta)
    (h : Store.modifyNode s i f = .ok s') : s'.links = s.links := by
  obtain ⟨d, _, e⟩ := modifyNode_ok s s' i f h
  subst e; rfl

theorem updateNodeOuts_links (s s' : St) (i k : Nat) (h : Store.updateNodeOuts s i k = .ok s') :
    s'.links = s.links := by
  unfold Store.updateNodeOuts at h
  simp only [bind, Except.bind] at h
  cases h1 : Store.modifyNode s i (fun d => { d with numOuts := k }) with
  | error e => simp [h1] at h
  | ok s1 =>
    simp only [h1] at h
    have e1 := modifyNode_links s s1 i _ h1
    cases h2 : getNode s1 i with
    | error e => simp [h2] at h
    | ok d =>
      simp only [h2] at h
      cases hp : d.parent with
      | none => simp [hp, pure, Except.pure] at h; subst h; exact e1
      | some p =>
        simp only [hp] at h
        cases h3 : getNode s1 p with
        | error e => simp [h3] at h
        | ok pd =>
          simp only [h3] at h
          cases h4 : replaceFirst i (i, some k) pd.children with
          | none => simp [h4] at h
          | some cs =>
            simp only [h4] at h
            exact (modifyNode_links s1 s' p _ h).trans e1

/-- completing the operation (`_set_in_types`, port counts) touches no link -/
theorem completeOp_links (s s' : St) (node : Nat) (tys : List Ty) (h : completeOp s node tys = .ok s') :
    linksList s' = linksList s := by
  unfold completeOp at h
  cases ho : nodeOp s node with
  | error e => simp [ho] at h
  | ok op =>
    simp only [ho] at h
    by_cases hp : isPartialOp op = true
    · simp only [hp, if_true] at h
      cases h1 : Op.setInTypes op tys with
      | error e => simp [h1] at h
      | ok op' =>
        simp only [h1] at h
        cases h2 : setOp s node op' with
        | error e => simp [h2] at h
        | ok s1 =>
          simp only [h2] at h
          cases h3 : Op.outerSig op' with
          | error e => simp [h3] at h
          | ok sig =>
            simp only [h3] at h
            have e1 : s1.links = s.links := by
              unfold setOp at h2
              cases hm : Store.modifyNode s node (fun d => { d with op := op' }) with
              | error e => simp [hm, liftS] at h2
              | ok sx =>
                simp only [hm, liftS] at h2
                injection h2 with h2; subst h2
                exact modifyNode_links s sx node _ hm
            unfold updatePortCount at h
            cases hm : Store.modifyNode s1 node (fun d => { d with numInps := sig.inp.length }) with
            | error e => simp [hm, liftS] at h
            | ok s2 =>
              simp only [hm, liftS] at h
              cases hu : Store.updateNodeOuts s2 node sig.out.length with
              | error e => simp [hu] at h
              | ok s3 =>
                simp only [hu] at h
                injection h with h; subst h
                apply linksList_congr
                rw [updateNodeOuts_links s2 s3 node _ hu, modifyNode_links s1 s2 node _ hm, e1]
    · simp only [hp] at h
      injection h with h; subst h; rfl

end HugrVerif.Build
