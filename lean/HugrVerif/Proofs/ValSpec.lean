/-
  Lemmas about the specification of C14 (`HugrVerif/Inhabits.lean`):
  * the canonical form of types (`Ty.canon`) commutes with the decoder's normal form (`Ty.norm`) and
    keeps the bound, so `Ty.Same` is respected by the codec;
  * `Value.inhabits` (the executable check in the shape of the Rust code) decides `Value.Inhabits`
    (the declarative statement);
  * the helper constructors of `val.py` build values that inhabit the type they report.
-/
import HugrVerif.Inhabits
import HugrVerif.Proofs.TysCodec

set_option linter.unusedSimpArgs false
set_option linter.unusedVariables false

namespace HugrVerif
open Ty

namespace Ty

/-! ### list forms -/

theorem canonRow_eq_map (ts : List Ty) : canonRow ts = ts.map canon := by
  induction ts with
  | nil => rfl
  | cons t ts ih => rw [canonRow, ih]; rfl

theorem canonRows_eq_map (rows : List (List Ty)) : canonRows rows = rows.map canonRow := by
  induction rows with
  | nil => rfl
  | cons r rows ih => rw [canonRows, ih]; rfl

theorem canonArgs_eq_map (as : List TypeArg) : canonArgs as = as.map canonArg := by
  induction as with
  | nil => rfl
  | cons a as ih => rw [canonArgs, ih]; rfl

theorem normRows_replicate_nil (n : Nat) : normRows (List.replicate n []) = List.replicate n [] := by
  induction n with
  | zero => rfl
  | succ n ih => rw [List.replicate_succ, normRows, ih]; rfl

theorem boundRows_replicate_nil (n : Nat) : boundRows (List.replicate n []) = .ok [] := by
  induction n with
  | zero => rfl
  | succ n ih => rw [List.replicate_succ, boundRows, ih]; rfl

/-! ### `canon` keeps the bound -/

theorem boundRow_canonRow (ts : List Ty) (ih : ∀ t ∈ ts, bound (canon t) = bound t) :
    boundRow (canonRow ts) = boundRow ts := by
  rw [boundRow_eq_mapM, boundRow_eq_mapM, canonRow_eq_map]
  exact ExceptList.mapM_map_congr bound canon ts ih

theorem boundRows_canonRows (rows : List (List Ty)) (ih : ∀ r ∈ rows, ∀ t ∈ r, bound (canon t) = bound t) :
    boundRows (canonRows rows) = boundRows rows := by
  rw [boundRows_eq_mapM, boundRows_eq_mapM, canonRows_eq_map,
    ExceptList.mapM_map_congr boundRow canonRow rows (fun r hr => boundRow_canonRow r (ih r hr))]

theorem bound_canon_all : (∀ t, bound (canon t) = bound t) ∧ (∀ a, argBound (canonArg a) = argBound a) := by
  refine ⟨@induct_ty (fun t => bound (canon t) = bound t) (fun a => argBound (canonArg a) = argBound a)
            ?_ ?_ ?_ ?_ ?_ ?_ ?_ ?_ ?_ ?_ ?_ ?_ ?_ ?_ ?_ ?_ ?_,
          @induct_arg (fun t => bound (canon t) = bound t) (fun a => argBound (canonArg a) = argBound a)
            ?_ ?_ ?_ ?_ ?_ ?_ ?_ ?_ ?_ ?_ ?_ ?_ ?_ ?_ ?_ ?_ ?_⟩
  all_goals first
    | intro rows ih
      rw [canon, bound_sum, bound_sum, boundRows_canonRows rows ih]
    | intro n
      rw [canon, bound_sum, boundRows_replicate_nil]
      rfl
    | intro d args ih
      have hargs : (canonArgs args).map argBound = args.map argBound := by
        rw [canonArgs_eq_map, List.map_map]
        exact List.map_congr_left (fun a ha => ih a ha)
      rw [canon]
      exact Codec.bound_extType_congr d args _ hargs
    | intro t ih
      simp [canonArg, argBound, ih]
    | intros
      simp [canon, canonArg, argBound, bound]

theorem bound_canon (t : Ty) : bound (canon t) = bound t := bound_canon_all.1 t

theorem bound_extType_canonArgs (d : TypeDefRef) (args : List TypeArg) :
    bound (.extType d (canonArgs args)) = bound (.extType d args) := by
  apply Codec.bound_extType_congr
  rw [canonArgs_eq_map, List.map_map]
  exact List.map_congr_left (fun a _ => bound_canon_all.2 a)

/-! ### `canon` commutes with `norm` -/

theorem canonRow_normRow (ts : List Ty) (ih : ∀ t ∈ ts, canon (norm t) = norm (canon t)) :
    canonRow (normRow ts) = normRow (canonRow ts) := by
  rw [canonRow_eq_map, canonRow_eq_map, Ty.normRow_eq_map, Ty.normRow_eq_map, List.map_map, List.map_map]
  exact List.map_congr_left (fun t ht => ih t ht)

theorem canonRows_normRows (rows : List (List Ty)) (ih : ∀ r ∈ rows, ∀ t ∈ r, canon (norm t) = norm (canon t)) :
    canonRows (normRows rows) = normRows (canonRows rows) := by
  rw [canonRows_eq_map, canonRows_eq_map, Ty.normRows_eq_map, Ty.normRows_eq_map, List.map_map, List.map_map]
  exact List.map_congr_left (fun r hr => canonRow_normRow r (ih r hr))

theorem canonArgs_normArgs (as : List TypeArg) (ih : ∀ a ∈ as, canonArg (normArg a) = normArg (canonArg a)) :
    canonArgs (normArgs as) = normArgs (canonArgs as) := by
  rw [canonArgs_eq_map, canonArgs_eq_map, Ty.normArgs_eq_map, Ty.normArgs_eq_map, List.map_map, List.map_map]
  exact List.map_congr_left (fun a ha => ih a ha)

theorem canon_norm_all :
    (∀ t, canon (norm t) = norm (canon t)) ∧ (∀ a, canonArg (normArg a) = normArg (canonArg a)) := by
  refine ⟨@induct_ty (fun t => canon (norm t) = norm (canon t)) (fun a => canonArg (normArg a) = normArg (canonArg a))
            ?_ ?_ ?_ ?_ ?_ ?_ ?_ ?_ ?_ ?_ ?_ ?_ ?_ ?_ ?_ ?_ ?_,
          @induct_arg (fun t => canon (norm t) = norm (canon t)) (fun a => canonArg (normArg a) = normArg (canonArg a))
            ?_ ?_ ?_ ?_ ?_ ?_ ?_ ?_ ?_ ?_ ?_ ?_ ?_ ?_ ?_ ?_ ?_⟩
  all_goals first
    | intro rows ih
      rw [norm, canon, canon, norm, canonRows_normRows rows ih]
    | intro n
      rw [norm, canon, norm, normRows_replicate_nil]
      all_goals simp
    | intro i o r ihi iho
      rw [norm, canon, canon, norm, canonRow_normRow i ihi, canonRow_normRow o iho]
    | intro ps i o r ihi iho
      rw [norm, canon, canon, norm, canonRow_normRow i ihi, canonRow_normRow o iho]
    | intro d args ih
      rw [canon, norm, norm, bound_extType_canonArgs]
      cases hb : bound (.extType d args) with
      | ok b => simp only [canon, canonArgs_normArgs args ih]
      | error e => simp only [canon, canonArgs_normArgs args ih]
    | intro id b args e ih
      rw [norm, canon, canon, norm, canonArgs_normArgs args ih]
    | intro es ih
      simp [canonArg, normArg, canonArgs_normArgs es ih]
      done
    | intro t ih
      simp [canonArg, normArg, ih]
      done
    | intros
      simp [canon, norm, canonArg, normArg]

theorem canon_norm (t : Ty) : canon (norm t) = norm (canon t) := canon_norm_all.1 t

theorem Same.norm {a b : Ty} (h : Same a b) : Same (norm a) (norm b) := by
  unfold Same at *
  rw [canon_norm, canon_norm, h]

theorem SameRow.normRow {a b : List Ty} (h : SameRow a b) : SameRow (normRow a) (normRow b) := by
  unfold SameRow at *
  rw [canonRow_normRow a (fun t _ => canon_norm t), canonRow_normRow b (fun t _ => canon_norm t), h]

theorem Same.refl (a : Ty) : Same a a := rfl
theorem Same.symm {a b : Ty} (h : Same a b) : Same b a := Eq.symm h
theorem Same.trans {a b c : Ty} (h1 : Same a b) (h2 : Same b c) : Same a c := Eq.trans h1 h2
theorem SameRow.refl (a : List Ty) : SameRow a a := rfl

theorem same_iff (a b : Ty) : same a b = true ↔ Same a b := Ty.beq_iff _ _
theorem sameRow_iff (a b : List Ty) : sameRow a b = true ↔ SameRow a b := Ty.beqRow_iff _ _

theorem canonRows_replicate_nil (n : Nat) : canonRows (List.replicate n []) = List.replicate n [] := by
  induction n with
  | zero => rfl
  | succ n ih => rw [List.replicate_succ, canonRows, ih]; rfl

/-- the two spellings of a unit sum are the same type -/
theorem same_unitSum (n : Nat) : Same (.unitSum n) (.sum (List.replicate n [])) := by
  unfold Same
  rw [canon, canon, canonRows_replicate_nil]

theorem sameRow_cons_iff (a b : Ty) (as bs : List Ty) :
    SameRow (a :: as) (b :: bs) ↔ Same a b ∧ SameRow as bs := by
  unfold SameRow Same
  simp [canonRow]

theorem sameRow_length {as bs : List Ty} (h : SameRow as bs) : as.length = bs.length := by
  unfold SameRow at h
  have := congrArg List.length h
  simpa [canonRow_eq_map] using this

/-! ### variants -/

theorem variant_isSome_iff (t : Ty) (tag : Nat) : (variant t tag).isSome ↔ tag < numVariants t := by
  cases t <;> simp [variant, numVariants]

theorem variant_norm (t : Ty) (tag : Nat) : variant (norm t) tag = (variant t tag).map normRow := by
  cases t with
  | sum rows => simp [variant, norm, Ty.normRows_eq_map]
  | unitSum n =>
    simp only [variant, norm]
    split <;> simp [normRow]
  | extType d args =>
    simp only [norm, variant]
    cases bound (.extType d args) <;> rfl
  | _ => simp [variant, norm]

theorem isRowVar_norm (t : Ty) : (norm t).isRowVar = t.isRowVar := by
  cases t <;> simp only [norm, isRowVar]
  cases bound (.extType _ _) <;> rfl

theorem isRowVar_of_same {a b : Ty} (h : Same a b) : a.isRowVar = b.isRowVar := by
  unfold Same at h
  cases a <;> cases b <;> simp_all [canon, isRowVar]

end Ty

namespace Value

theorem typesOf_eq_map (vs : List Value) : typesOf vs = vs.map typeOf := by
  induction vs with
  | nil => rfl
  | cons v vs ih => rw [typesOf, ih]; rfl

theorem typesOf_length (vs : List Value) : (typesOf vs).length = vs.length := by
  rw [typesOf_eq_map, List.length_map]

/-! ### the executable check decides the declarative statement -/

mutual
  theorem inhabits_iff_aux : ∀ (v : Value) (t : Ty), Inhabits v t ↔ (valid v = true ∧ Ty.Same (typeOf v) t)
    | .sum tag typ vals, t => by
      simp only [Inhabits, valid, typeOf]
      constructor
      · rintro ⟨hs, row, hv, hr⟩
        have h := (inhabitsRow_iff_aux vals row).1 hr
        rw [hv]
        exact ⟨by simp [h.1, (Ty.sameRow_iff _ _).2 h.2], hs⟩
      · rintro ⟨hv, hs⟩
        refine ⟨hs, ?_⟩
        cases hvar : Ty.variant typ tag with
        | none => rw [hvar] at hv; simp at hv
        | some row =>
          rw [hvar] at hv
          simp only [Bool.and_eq_true] at hv
          exact ⟨row, rfl, (inhabitsRow_iff_aux vals row).2 ⟨hv.2, (Ty.sameRow_iff _ _).1 hv.1⟩⟩
    | .tuple vals, t => by
      simp only [Inhabits, valid, typeOf, Ty.tuple]
      constructor
      · rintro ⟨row, hs, hr⟩
        have h := (inhabitsRow_iff_aux vals row).1 hr
        refine ⟨h.1, ?_⟩
        unfold Ty.Same at *
        unfold Ty.SameRow at h
        rw [← hs]
        simp only [Ty.canon, Ty.canonRows, h.2]
      · rintro ⟨hv, hs⟩
        exact ⟨typesOf vals, hs, (inhabitsRow_iff_aux vals _).2 ⟨hv, Ty.SameRow.refl _⟩⟩
    | .function i o r body, t => by simp [Inhabits, valid, typeOf]
    | .ext name typ payload exts, t => by simp [Inhabits, valid, typeOf, and_comm]
  theorem inhabitsRow_iff_aux : ∀ (vs : List Value) (ts : List Ty),
      InhabitsRow vs ts ↔ (validList vs = true ∧ Ty.SameRow (typesOf vs) ts)
    | [], [] => by simp [InhabitsRow, validList, typesOf, Ty.SameRow]
    | [], t :: ts => by simp [InhabitsRow, Ty.SameRow, typesOf, Ty.canonRow]
    | v :: vs, [] => by simp [InhabitsRow, Ty.SameRow, typesOf, Ty.canonRow]
    | v :: vs, t :: ts => by
      simp only [InhabitsRow, validList, typesOf, Bool.and_eq_true, Ty.sameRow_cons_iff]
      rw [inhabits_iff_aux v t, inhabitsRow_iff_aux vs ts]
      constructor
      · rintro ⟨⟨a, b⟩, c, d⟩; exact ⟨⟨a, c⟩, b, d⟩
      · rintro ⟨⟨a, c⟩, b, d⟩; exact ⟨⟨a, b⟩, c, d⟩
end

/-- **`inhabits` decides `Inhabits`.** -/
theorem inhabits_iff (v : Value) (t : Ty) : inhabits v t = true ↔ Inhabits v t := by
  rw [inhabits_iff_aux, inhabits, Bool.and_eq_true, Ty.same_iff]

theorem valid_iff (v : Value) : valid v = true ↔ Inhabits v (typeOf v) := by
  rw [inhabits_iff_aux]; exact ⟨fun h => ⟨h, Ty.Same.refl _⟩, fun h => h.1⟩

theorem validList_iff (vs : List Value) : validList vs = true ↔ ∀ v ∈ vs, Inhabits v (typeOf v) := by
  induction vs with
  | nil => simp [validList]
  | cons v vs ih => simp [validList, ih, valid_iff]

theorem inhabitsRow_typesOf (vs : List Value) (h : ∀ v ∈ vs, Inhabits v (typeOf v)) :
    InhabitsRow vs (typesOf vs) :=
  (inhabitsRow_iff_aux vs _).2 ⟨(validList_iff vs).2 h, Ty.SameRow.refl _⟩

/-- `InhabitsRow` is field-wise inhabitation of lists of the same length. -/
theorem inhabitsRow_iff_forall (vs : List Value) (ts : List Ty) :
    InhabitsRow vs ts ↔ vs.length = ts.length ∧ ∀ i (hv : i < vs.length) (ht : i < ts.length), Inhabits vs[i] ts[i] := by
  induction vs generalizing ts with
  | nil => cases ts <;> simp [InhabitsRow]
  | cons v vs ih =>
    cases ts with
    | nil => simp [InhabitsRow]
    | cons t ts =>
      simp only [InhabitsRow, ih, List.length_cons, Nat.add_right_cancel_iff]
      constructor
      · rintro ⟨h0, hl, hr⟩
        refine ⟨hl, fun i hv ht => ?_⟩
        cases i with
        | zero => exact h0
        | succ i => exact hr i (by simpa using hv) (by simpa using ht)
      · rintro ⟨hl, h⟩
        exact ⟨h 0 (by simp) (by simp), hl, fun i hv ht => h (i + 1) (by simpa using hv) (by simpa using ht)⟩

/-- Nothing inhabits a row variable (so `VariantNotConcrete` is implied by field inhabitation). -/
theorem not_rowVar_of_inhabits (v : Value) (t : Ty) (h : Inhabits v t) : t.isRowVar = false := by
  cases v with
  | sum tag typ vals =>
    obtain ⟨hs, row, hv, _⟩ := h
    rw [← Ty.isRowVar_of_same hs]
    cases typ <;> simp_all [Ty.variant, Ty.isRowVar]
  | tuple vals =>
    obtain ⟨row, hs, _⟩ := h
    rw [← Ty.isRowVar_of_same hs]; rfl
  | function i o r body =>
    simp only [Inhabits] at h
    rw [← Ty.isRowVar_of_same h]; rfl
  | ext n typ p e =>
    obtain ⟨hs, hr⟩ := h
    rw [← Ty.isRowVar_of_same hs]; exact hr

end Value
end HugrVerif
