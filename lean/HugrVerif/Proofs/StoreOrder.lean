/-
  `_hierarchy_order` (C03/C08): every node is listed after its parent.
-/
import HugrVerif.Proofs.StoreHier

namespace HugrVerif.Store
open Py HugrVerif

variable {Ω μ : Type}

theorem popMin_spec : ∀ (l : List Nat) (m : Nat) (rest : List Nat), popMin l = some (m, rest) →
    m ∈ l ∧ ∀ x ∈ rest, x ∈ l := by
  intro l
  induction l with
  | nil => intro m rest h; simp [popMin] at h
  | cons x xs ih =>
    intro m rest h
    unfold popMin at h
    cases hp : popMin xs with
    | none => simp [hp] at h; obtain ⟨rfl, rfl⟩ := h; simp
    | some r =>
      obtain ⟨m', rest'⟩ := r
      simp only [hp] at h
      obtain ⟨h1, h2⟩ := ih m' rest' hp
      by_cases hx : x ≤ m'
      · simp [hx] at h; obtain ⟨rfl, rfl⟩ := h
        exact ⟨by simp, fun y hy => by simp [hy]⟩
      · simp [hx] at h; obtain ⟨rfl, rfl⟩ := h
        refine ⟨by simp [h1], ?_⟩
        intro y hy
        rcases List.mem_cons.mp hy with rfl | hy
        · simp
        · simp [h2 y hy]

/-- entries of `recordSiblings ns l` are old entries or adjacent children of `l` -/
theorem recordSiblings_spec : ∀ (l : List Handle) (ns : Dict Nat Nat) (c sib : Nat),
    Dict.get c (recordSiblings ns l) = some sib →
    Dict.get c ns = some sib ∨ (c ∈ l.map (·.1) ∧ sib ∈ l.map (·.1)) := by
  intro l
  induction l with
  | nil => intro ns c sib h; simp [recordSiblings] at h; exact Or.inl h
  | cons a t ih =>
    intro ns c sib h
    cases t with
    | nil => simp [recordSiblings] at h; exact Or.inl h
    | cons b t' =>
      simp only [recordSiblings] at h
      rcases ih (Dict.set a.1 b.1 ns) c sib h with h1 | ⟨h1, h2⟩
      · rw [Dict.get_set] at h1
        by_cases hc : c = a.1
        · simp [hc] at h1; subst h1; right; simp [hc]
        · simp [hc] at h1; exact Or.inl h1
      · right
        exact ⟨List.mem_cons_of_mem _ h1, List.mem_cons_of_mem _ h2⟩

/-- every listed node that has a parent is preceded by it -/
def ParentFirst (s : Store Ω μ) (order : List Nat) : Prop :=
  ∀ (pre : List Nat) (x : Nat) (post : List Nat), order = pre ++ x :: post →
    ∀ d p, getNode s x = .ok d → d.parent = some p → p ∈ pre

theorem parentFirst_snoc (s : Store Ω μ) (acc : List Nat) (x : Nat) (h : ParentFirst s acc)
    (hx : ∀ d p, getNode s x = .ok d → d.parent = some p → p ∈ acc) : ParentFirst s (acc ++ [x]) := by
  intro pre y post e d p hd hp
  -- either y is inside acc, or y = x and pre = acc
  rcases List.append_eq_append_iff.mp e with ⟨as, h1, h2⟩ | ⟨bs, h1, h2⟩
  · -- pre = acc ++ as,  [x] = as ++ y :: post
    cases as with
    | nil =>
      simp at h2; obtain ⟨rfl, _⟩ := h2
      simp at h1; subst h1
      exact hx d p hd hp
    | cons a as' =>
      have := congrArg List.length h2
      simp at this
  · -- acc = pre ++ bs,  y :: post = bs ++ [x]
    cases bs with
    | nil =>
      simp at h2; obtain ⟨rfl, _⟩ := h2
      simp at h1; subst h1
      exact hx d p hd hp
    | cons b bs' =>
      simp at h2; obtain ⟨rfl, _⟩ := h2
      exact h pre y bs' h1 d p hd hp

/-- loop invariant of `_hierarchy_order` -/
structure LoopInv (s : Store Ω μ) (ready : List Nat) (ns : Dict Nat Nat) (acc : List Nat) : Prop where
  ready : ∀ x ∈ ready, ∀ d p, getNode s x = .ok d → d.parent = some p → p ∈ acc
  sibs : ∀ c sib, Dict.get c ns = some sib → ∀ d p, getNode s sib = .ok d → d.parent = some p → p ∈ acc
  nd : Dict.NodupKeys ns
  pf : ParentFirst s acc

theorem hierLoop_parentFirst (s : Store Ω μ) (hh : HierInv s) : ∀ (fuel : Nat) (ready : List Nat)
    (ns : Dict Nat Nat) (acc order : List Nat), LoopInv s ready ns acc →
    hierLoop s fuel ready ns acc = .ok order → ParentFirst s order := by
  intro fuel
  induction fuel with
  | zero => intro ready ns acc order hi h; simp [hierLoop] at h; subst h; exact hi.pf
  | succ f ih =>
    intro ready ns acc order hi h
    unfold hierLoop at h
    cases hp : popMin ready with
    | none => simp [hp] at h; subst h; exact hi.pf
    | some r =>
      obtain ⟨idx, rest⟩ := r
      simp only [hp] at h
      obtain ⟨hmem, hrest⟩ := popMin_spec ready idx rest hp
      cases hd : getNode s idx with
      | error e => simp [hd] at h
      | ok d =>
        simp only [hd] at h
        -- facts about the popped node
        have hpar : ∀ d' p, getNode s idx = .ok d' → d'.parent = some p → p ∈ acc := hi.ready idx hmem
        have hpf' : ParentFirst s (acc ++ [idx]) := parentFirst_snoc s acc idx hi.pf hpar
        have hchild : ∀ c, c ∈ d.children.map (·.1) → ∀ dc p, getNode s c = .ok dc → dc.parent = some p → p ∈ acc ++ [idx] := by
          intro c hc dc p hdc hpc
          obtain ⟨dc', e', hp'⟩ := hh.childParent idx d c hd hc
          rw [hdc] at e'; injection e' with e'; subst e'
          rw [hp'] at hpc; injection hpc with hpc; subst hpc
          simp
        have hns' : ∀ c sib, Dict.get c (recordSiblings ns d.children) = some sib →
            ∀ dd p, getNode s sib = .ok dd → dd.parent = some p → p ∈ acc ++ [idx] := by
          intro c sib hg dd p hdd hpp
          rcases recordSiblings_spec d.children ns c sib hg with h1 | ⟨_, h2⟩
          · exact List.mem_append_left _ (hi.sibs c sib h1 dd p hdd hpp)
          · exact hchild sib h2 dd p hdd hpp
        have hnd' : Dict.NodupKeys (recordSiblings ns d.children) := by
          have : ∀ (l : List Handle) (m : Dict Nat Nat), Dict.NodupKeys m → Dict.NodupKeys (recordSiblings m l) := by
            intro l
            induction l with
            | nil => intro m hm; simpa [recordSiblings] using hm
            | cons a t iht =>
              intro m hm
              cases t with
              | nil => simpa [recordSiblings] using hm
              | cons b t' => simp only [recordSiblings]; exact iht _ (Dict.nodup_set _ _ _ hm)
          exact this _ _ hi.nd
        have hready' : ∀ x ∈ (match d.children with | [] => rest | c :: _ => c.1 :: rest),
            ∀ dx p, getNode s x = .ok dx → dx.parent = some p → p ∈ acc ++ [idx] := by
          intro x hx dx p hdx hpx
          cases hc : d.children with
          | nil =>
            simp only [hc] at hx
            exact List.mem_append_left _ (hi.ready x (hrest x hx) dx p hdx hpx)
          | cons c cs =>
            simp only [hc] at hx
            rcases List.mem_cons.mp hx with rfl | hx
            · exact hchild c.1 (by simp [hc]) dx p hdx hpx
            · exact List.mem_append_left _ (hi.ready x (hrest x hx) dx p hdx hpx)
        cases hs : Dict.get idx (recordSiblings ns d.children) with
        | none =>
          simp only [hs] at h
          exact ih _ _ _ order ⟨hready', hns', hnd', hpf'⟩ h
        | some sib =>
          simp only [hs] at h
          refine ih _ _ _ order ⟨?_, ?_, Dict.nodup_del _ _ hnd', hpf'⟩ h
          · intro x hx dx p hdx hpx
            rcases List.mem_cons.mp hx with rfl | hx
            · exact hns' idx x hs dx p hdx hpx
            · exact hready' x hx dx p hdx hpx
          · intro c sb hg dd p hdd hpp
            rw [Dict.get_del _ _ _ hnd'] at hg
            by_cases hci : c = idx
            · simp [hci] at hg
            · simp [hci] at hg; exact hns' c sb hg dd p hdd hpp

/-- **The walk of `_hierarchy_order` lists every node after its parent** (in any store whose
    children lists agree with the parent pointers, and whose root has no parent). -/
theorem hierLoop_root_parentFirst (s : Store Ω μ) (hh : HierInv s)
    (hroot : ∀ d p, getNode s s.root = .ok d → d.parent = some p → False) (order : List Nat)
    (h : hierLoop s (s.nodes.length + 1) [s.root] [] [] = .ok order) : ParentFirst s order := by
  refine hierLoop_parentFirst s hh _ [s.root] [] [] order ⟨?_, ?_, by simp [Dict.NodupKeys], ?_⟩ h
  · intro x hx d p hd hp
    simp at hx; subst hx
    exact absurd hp (fun e => hroot d p hd e)
  · intro c sib hg; simp at hg
  · intro pre x post e; simp at e

end HugrVerif.Store
