/-
  `insert_hugr` (C08): the node-copy loop and the link-copy loop.
-/
import HugrVerif.Proofs.StoreInv

namespace HugrVerif.Store
open Py HugrVerif

variable {Ω μ : Type}

/-- A link of B renamed through the mapping. -/
def renameLink (mp : Dict Nat Nat) (e : SubPort × SubPort) : Option (Port × Port) :=
  match Dict.get e.1.node mp, Dict.get e.2.node mp with
  | some a, some c => some ((a, e.1.offset), (c, e.2.offset))
  | _, _ => none

/-- **The link-copy loop appends exactly the renamed links of B, in B's order** (offsets and
    multiplicity preserved, order links included); nodes keep their data, port counts only grow. -/
theorem insertLinks_spec (mp : Dict Nat Nat) : ∀ (ls : List (SubPort × SubPort)) (s s' : Store Ω μ),
    LInv s.links → insertLinks s mp ls = .ok s' →
    linksList s' = linksList s ++ ls.filterMap (renameLink mp) ∧ StoreGrow s s' ∧
    (∀ e ∈ ls, (renameLink mp e).isSome) ∧ LInv s'.links := by
  intro ls
  induction ls with
  | nil =>
    intro s s' hl h
    simp [insertLinks, pure, Except.pure] at h
    subst h
    exact ⟨by simp, StoreGrow.refl _, by simp, hl⟩
  | cons e ls ih =>
    intro s s' hl h
    obtain ⟨a, c⟩ := e
    unfold insertLinks at h
    cases ha : Dict.get a.node mp with
    | none => simp [ha] at h
    | some a' =>
      cases hc : Dict.get c.node mp with
      | none => simp [ha, hc] at h
      | some c' =>
        simp only [ha, hc, bind, Except.bind] at h
        cases h1 : addLink s (a', a.offset) (c', c.offset) with
        | error err => simp [h1] at h
        | ok s1 =>
          simp only [h1] at h
          obtain ⟨e1, hl1⟩ := addLink_links s s1 hl _ _ h1
          obtain ⟨G1, _, _⟩ := addLink_nodes s s1 _ _ h1
          obtain ⟨e2, G2, hsome, hl2⟩ := ih s1 s' hl1 h
          have hr : renameLink mp (a, c) = some ((a', a.offset), (c', c.offset)) := by
            simp [renameLink, ha, hc]
          refine ⟨?_, G1.trans G2, ?_, hl2⟩
          · rw [e2, e1]; simp [List.filterMap_cons, hr]
          · intro e he
            rcases List.mem_cons.mp he with rfl | he
            · simp [hr]
            · exact hsome e he

/-- What the node-copy loop has established after processing a list of B's nodes. -/
structure Copied (a s b : Store Ω μ) (parent : Option Nat) (done : List Nat) (mp : Dict Nat Nat) : Prop where
  /-- the mapping is defined exactly on the processed nodes, in processing order -/
  keys : Dict.keys mp = done
  /-- images are pairwise distinct -/
  inj : ∀ i j x, Dict.get i mp = some x → Dict.get j mp = some x → i = j
  /-- images were not live in A and carry B's operation, metadata and out-port count; their parent
      is the image of B's parent (the requested parent, default A's root, for B's root) -/
  image : ∀ i x, Dict.get i mp = some x → (∀ d, getNode a x ≠ .ok d) ∧
    ∃ db ds, getNode b i = .ok db ∧ getNode s x = .ok ds ∧ ds.op = db.op ∧ ds.md = db.md ∧
      ds.numOuts = db.numOuts ∧
      (∀ p, db.parent = some p → ∃ p', Dict.get p mp = some p' ∧ ds.parent = some p') ∧
      (db.parent = none → ds.parent = some (parent.getD a.root))
  /-- every node of A is still there with the same operation, parent, metadata and port counts -/
  frame : ∀ j d, getNode a j = .ok d → ∃ d', getNode s j = .ok d' ∧ NodeSame d d' ∧
    d'.numInps = d.numInps ∧ d'.numOuts = d.numOuts
  /-- nothing else became live -/
  only : ∀ j d', getNode s j = .ok d' → (∃ d, getNode a j = .ok d) ∨ (∃ i, Dict.get i mp = some j)
  links : s.links = a.links
  root : s.root = a.root
  free : FreeInv s

theorem copied_init (a b : Store Ω μ) (parent : Option Nat) (hf : FreeInv a) : Copied a a b parent [] [] :=
  ⟨rfl, by intro i j x h; simp at h, by intro i x h; simp at h,
   fun j d h => ⟨d, h, NodeSame.refl d, rfl, rfl⟩, fun j d h => Or.inl ⟨d, h⟩, rfl, rfl, hf⟩

/-- one iteration of the node-copy loop -/
theorem copied_step (a b s s1 : Store Ω μ) (parent : Option Nat) (done : List Nat) (mp : Dict Nat Nat)
    (hc : Copied a s b parent done mp) (i : Nat) (hi_done : i ∉ done) (db : NodeData Ω μ)
    (hd : getNode b i = .ok db) (np : Option Nat) (hp : resolveParent mp parent db.parent = .ok np) (x : Nat)
    (ha : addNode s db.op np (some db.numOuts) db.md = .ok (s1, x)) :
    Copied a s1 b parent (done ++ [i]) (Dict.set i x mp) := by
  obtain ⟨fresh, ⟨dx, ex, eop, epar, emd, _, eouts⟩, keep, back, elinks, eroot, hf1⟩ :=
    addNodeRaw_spec s s1 hc.free db.op _ (some db.numOuts) db.md x ha
  have hi_new : i ∉ Dict.keys mp := by rw [hc.keys]; exact hi_done
  have hget_i : Dict.get i mp = none := (Dict.get_none_iff i mp).mpr hi_new
  -- x is not an image yet and not a node of A
  have hx_not_image : ∀ j, Dict.get j mp ≠ some x := by
    intro j hj
    obtain ⟨_, _, ds, _, es, _⟩ := hc.image j x hj
    exact fresh ds es
  have hx_not_a : ∀ d, getNode a x ≠ .ok d := by
    intro d hd'
    obtain ⟨d', e', _⟩ := hc.frame x d hd'
    exact fresh d' e'
  -- parent recorded for the new node
  have hnp : np = (match db.parent with | some p => Dict.get p mp | none => parent) := by
    unfold resolveParent at hp
    cases hpp : db.parent with
    | none => simp [hpp] at hp; simp [hp]
    | some p =>
      simp only [hpp] at hp
      cases hg : Dict.get p mp with
      | none => simp [hg] at hp
      | some p' => simp [hg] at hp; simp [hg, hp]
  have step : Copied a s1 b parent (done ++ [i]) (Dict.set i x mp) := by
    refine ⟨?_, ?_, ?_, ?_, ?_, ?_, ?_, hf1⟩
    · rw [Dict.keys_set, if_neg hi_new, hc.keys]
    · intro j k y hj hk
      rw [Dict.get_set] at hj hk
      by_cases hji : j = i <;> by_cases hki : k = i
      · rw [hji, hki]
      · simp [hji] at hj; simp [hki] at hk; subst hj; exact absurd hk (hx_not_image k)
      · simp [hji] at hj; simp [hki] at hk; subst hk; exact absurd hj (hx_not_image j)
      · simp [hji] at hj; simp [hki] at hk; exact hc.inj j k y hj hk
    · intro j y hj
      rw [Dict.get_set] at hj
      by_cases hji : j = i
      · simp [hji] at hj; subst hj; subst hji
        refine ⟨hx_not_a, db, dx, hd, ex, eop, emd, by simpa using eouts, ?_, ?_⟩
        · intro p hpp
          rw [hpp] at hnp
          cases hg : Dict.get p mp with
          | none =>
            exfalso
            unfold resolveParent at hp
            simp [hpp, hg] at hp
          | some p' =>
            refine ⟨p', ?_, ?_⟩
            · rw [Dict.get_set]
              have : p ≠ j := by intro e; subst e; rw [hget_i] at hg; cases hg
              simp [this, hg]
            · rw [epar, hnp]; simp [hg]
        · intro hpp
          rw [hpp] at hnp
          rw [epar, hnp, hc.root]
      · simp [hji] at hj
        obtain ⟨h1, db', ds, e1, e2, e3, e4, e5, e6, e7⟩ := hc.image j y hj
        have hyx : y ≠ x := by intro e; subst e; exact hx_not_image j hj
        obtain ⟨ds', es', sm, n1, n2⟩ := keep y ds hyx e2
        refine ⟨h1, db', ds', e1, es', by rw [sm.op, e3], by rw [sm.md, e4], by rw [n2, e5], ?_, ?_⟩
        · intro p hpp
          obtain ⟨p', g1, g2⟩ := e6 p hpp
          refine ⟨p', ?_, by rw [sm.parent, g2]⟩
          rw [Dict.get_set]
          have : p ≠ i := by intro e; subst e; rw [hget_i] at g1; cases g1
          simp [this, g1]
        · intro hpp; rw [sm.parent]; exact e7 hpp
    · intro j d hd'
      obtain ⟨d1, e1, sm1, n1, o1⟩ := hc.frame j d hd'
      have hjx : j ≠ x := by intro e; subst e; exact fresh d1 e1
      obtain ⟨d2, e2, sm2, n2, o2⟩ := keep j d1 hjx e1
      exact ⟨d2, e2, sm1.trans sm2, n2.trans n1, o2.trans o1⟩
    · intro j d' hd'
      by_cases hjx : j = x
      · right; exact ⟨i, by rw [Dict.get_set]; simp [hjx]⟩
      · obtain ⟨d, hd0⟩ := back j d' hjx hd'
        rcases hc.only j d hd0 with h1 | ⟨k, hk⟩
        · exact Or.inl h1
        · right
          refine ⟨k, ?_⟩
          rw [Dict.get_set]
          have : k ≠ i := by intro e; subst e; rw [hget_i] at hk; cases hk
          simp [this, hk]
    · rw [elinks, hc.links]
    · rw [eroot, hc.root]
  exact step

theorem insertNodes_spec (a b : Store Ω μ) (parent : Option Nat) : ∀ (is : List Nat) (s s' : Store Ω μ)
    (done : List Nat) (mp mp' : Dict Nat Nat), Copied a s b parent done mp → Dict.NodupKeys mp →
    (∀ i ∈ is, i ∉ done) → is.Nodup →
    insertNodes s b parent is mp = .ok (s', mp') →
    Copied a s' b parent (done ++ is) mp' ∧ Dict.NodupKeys mp' := by
  intro is
  induction is with
  | nil =>
    intro s s' done mp mp' hc hnd _ _ h
    simp [insertNodes] at h
    obtain ⟨rfl, rfl⟩ := h
    simpa using ⟨hc, hnd⟩
  | cons i is ih =>
    intro s s' done mp mp' hc hnd hnew hndis h
    unfold insertNodes at h
    cases hd : getNode b i with
    | error e => simp [hd] at h
    | ok db =>
      simp only [hd] at h
      cases hp : resolveParent mp parent db.parent with
      | error e => simp [hp] at h
      | ok np =>
        simp only [hp] at h
        cases ha : addNode s db.op np (some db.numOuts) db.md with
        | error e => simp [ha] at h
        | ok r =>
          simp only [ha] at h
          obtain ⟨s1, x⟩ := r
          have step := copied_step a b s s1 parent done mp hc i (hnew i (by simp)) db hd np hp x ha
          have hnd1 : Dict.NodupKeys (Dict.set i x mp) := Dict.nodup_set i x mp hnd
          have := ih s1 s' (done ++ [i]) (Dict.set i x mp) mp' step hnd1
            (by
              intro k hk hmem
              rcases List.mem_append.mp hmem with h1 | h1
              · exact hnew k (by simp [hk]) h1
              · simp at h1; subst h1; exact (List.nodup_cons.mp hndis).1 hk)
            (List.nodup_cons.mp hndis).2 h
          simpa [List.append_assoc] using this

end HugrVerif.Store
