/-
  Lemmas about extension resolution (`Resolve.lean`), used by `Props/C11.lean`.
-/
import HugrVerif.Resolve
import HugrVerif.Proofs.TysCodec
import HugrVerif.Proofs.OpsCodec
import HugrVerif.SerialCodecs

namespace HugrVerif.Resolve
open HugrVerif HugrVerif.Py HugrVerif.Ty HugrVerif.Codec

/-! ### lists -/

theorem resolveRow_eq_map (r : Registry) (ts : List Ty) : resolveRow r ts = ts.map (resolveTy r) := by
  induction ts with
  | nil => rfl
  | cons t ts ih => rw [resolveRow, ih]; rfl

theorem resolveRows_eq_map (r : Registry) (rows : List (List Ty)) : resolveRows r rows = rows.map (resolveRow r) := by
  induction rows with
  | nil => rfl
  | cons t ts ih => rw [resolveRows, ih]; rfl

theorem resolveArgs_eq_map (r : Registry) (as : List TypeArg) : resolveArgs r as = as.map (resolveArg r) := by
  induction as with
  | nil => rfl
  | cons t ts ih => rw [resolveArgs, ih]; rfl

theorem consistentRow_iff (r : Registry) (ts : List Ty) :
    consistentRow r ts = true ↔ ∀ t ∈ ts, consistentTy r t = true := by
  induction ts with
  | nil => simp [consistentRow]
  | cons t ts ih => simp [consistentRow, ih]

theorem consistentRows_iff (r : Registry) (rows : List (List Ty)) :
    consistentRows r rows = true ↔ ∀ row ∈ rows, ∀ t ∈ row, consistentTy r t = true := by
  induction rows with
  | nil => simp [consistentRows]
  | cons t ts ih => simp [consistentRows, ih, consistentRow_iff]

theorem consistentArgs_iff (r : Registry) (as : List TypeArg) :
    consistentArgs r as = true ↔ ∀ a ∈ as, consistentArg r a = true := by
  induction as with
  | nil => simp [consistentArgs]
  | cons t ts ih => simp [consistentArgs, ih]

theorem opaquesRow_mem (ts : List Ty) (x : String × String) :
    x ∈ opaquesRow ts ↔ ∃ t ∈ ts, x ∈ opaques t := by
  induction ts with
  | nil => simp [opaquesRow]
  | cons t ts ih => simp [opaquesRow, ih]

theorem opaquesRows_mem (rows : List (List Ty)) (x : String × String) :
    x ∈ opaquesRows rows ↔ ∃ row ∈ rows, ∃ t ∈ row, x ∈ opaques t := by
  induction rows with
  | nil => simp [opaquesRows]
  | cons t ts ih => simp [opaquesRows, ih, opaquesRow_mem]

theorem opaquesArgs_mem (as : List TypeArg) (x : String × String) :
    x ∈ opaquesArgs as ↔ ∃ a ∈ as, x ∈ opaquesArg a := by
  induction as with
  | nil => simp [opaquesArgs]
  | cons t ts ih => simp [opaquesArgs, ih]

/-! ### the registry -/

/-- The hypotheses on a registry: keys equal extension names; type/operation definition dict keys
    equal definition names; definitions are owned by the extension holding them. -/
structure RegistryWf (r : Registry) : Prop where
  ext_name : ∀ k e, Dict.get k r.extensions = some e → e.name = k
  type_def : ∀ k e n td, Dict.get k r.extensions = some e → Dict.get n e.types = some td →
    td.name = n ∧ td.owner = some e.name
  op_def : ∀ k e n od, Dict.get k r.extensions = some e → Dict.get n e.operations = some od →
    od.name = n ∧ od.owner = some e.name

/-- every opaque type naming a known definition stores the bound the definition computes -/
def BoundsConsistent (r : Registry) (t : Ty) : Prop := consistentTy r t = true
def ArgConsistent (r : Registry) (a : TypeArg) : Prop := consistentArg r a = true
def OpConsistent (r : Registry) (op : Op) : Prop := consistentOp r op = true

theorem allDict_get {α : Type} (p : String → α → Bool) (d : Dict String α) (h : allDict p d = true)
    (k : String) (v : α) (hg : Dict.get k d = some v) : p k v = true := by
  induction d with
  | nil => simp at hg
  | cons kv rest ih =>
    obtain ⟨a, b⟩ := kv
    simp only [allDict, Bool.and_eq_true] at h
    by_cases hak : a = k
    · subst hak
      simp [Dict.get] at hg
      subst hg
      exact h.1
    · simp [Dict.get, hak] at hg
      exact ih h.2 hg

/-- the executable check establishes the hypothesis -/
theorem registryWf_of_check (r : Registry) (h : registryWfB r = true) : RegistryWf r := by
  unfold registryWfB at h
  refine ⟨?_, ?_, ?_⟩
  · intro k e hg
    have := allDict_get _ _ h k e hg
    simp only [Bool.and_eq_true, beq_iff_eq] at this
    exact this.1.1
  · intro k e n td hg ht
    have := allDict_get _ _ h k e hg
    simp only [Bool.and_eq_true] at this
    have h2 := allDict_get _ _ this.1.2 n td ht
    simp only [Bool.and_eq_true, beq_iff_eq] at h2
    exact h2
  · intro k e n od hg ho
    have := allDict_get _ _ h k e hg
    simp only [Bool.and_eq_true] at this
    have h2 := allDict_get _ _ this.2 n od ho
    simp only [Bool.and_eq_true, beq_iff_eq] at h2
    exact h2

/-- **The lookup succeeds exactly when the registry holds an extension of that name containing a
    type definition of that name.** -/
theorem lookupType_eq_some_iff (r : Registry) (ext id : String) (td : Ext.TypeDef) :
    lookupType r ext id = some td ↔
      ∃ e, Dict.get ext r.extensions = some e ∧ Dict.get id e.types = some td := by
  unfold lookupType getExtension getType
  cases h1 : Dict.get ext r.extensions with
  | none => simp
  | some e =>
    cases h2 : Dict.get id e.types with
    | none => simp [h2]
    | some td' => simp [h2]

theorem lookupOp_eq_some_iff (r : Registry) (ext name : String) (od : Ext.OpDef) :
    lookupOp r ext name = some od ↔
      ∃ e, Dict.get ext r.extensions = some e ∧ Dict.get name e.operations = some od := by
  unfold lookupOp getExtension getOp
  cases h1 : Dict.get ext r.extensions with
  | none => simp
  | some e =>
    cases h2 : Dict.get name e.operations with
    | none => simp [h2]
    | some od' => simp [h2]

/-- the lookup fails exactly with one of the two exceptions `Opaque.resolve` catches -/
theorem lookupType_eq_none_iff (r : Registry) (ext id : String) :
    lookupType r ext id = none ↔
      getExtension r ext = .error .extension ∨ ∃ e, getExtension r ext = .ok e ∧ getType e id = .error .type := by
  unfold lookupType getExtension getType
  cases h1 : Dict.get ext r.extensions with
  | none => simp
  | some e =>
    cases h2 : Dict.get id e.types with
    | none => simp [h2]
    | some td' => simp [h2]

theorem lookupOp_eq_none_iff (r : Registry) (ext name : String) :
    lookupOp r ext name = none ↔
      getExtension r ext = .error .extension ∨ ∃ e, getExtension r ext = .ok e ∧ getOp e name = .error .operation := by
  unfold lookupOp getExtension getOp
  cases h1 : Dict.get ext r.extensions with
  | none => simp
  | some e =>
    cases h2 : Dict.get name e.operations with
    | none => simp [h2]
    | some od' => simp [h2]

/-- under `RegistryWf` a found type definition carries the names it was looked up by -/
theorem typeDefRef_names (r : Registry) (hwf : RegistryWf r) (ext id : String) (td : Ext.TypeDef)
    (h : lookupType r ext id = some td) : (typeDefRef td).ext = ext ∧ (typeDefRef td).name = id := by
  obtain ⟨e, h1, h2⟩ := (lookupType_eq_some_iff r ext id td).1 h
  have hn := hwf.ext_name ext e h1
  obtain ⟨ht, ho⟩ := hwf.type_def ext e id td h1 h2
  simp [typeDefRef, ho, hn, ht]

theorem opDefRef_names (r : Registry) (hwf : RegistryWf r) (ext name : String) (od : Ext.OpDef)
    (h : lookupOp r ext name = some od) : (opDefRef od).ext = some ext ∧ (opDefRef od).name = name := by
  obtain ⟨e, h1, h2⟩ := (lookupOp_eq_some_iff r ext name od).1 h
  have hn := hwf.ext_name ext e h1
  obtain ⟨ht, ho⟩ := hwf.op_def ext e name od h1 h2
  simp [opDefRef, ho, hn, ht]

/-! ### resolution keeps the class of everything but opaque types -/

theorem isPoly_resolveTy (r : Registry) (t : Ty) : (resolveTy r t).isPoly = t.isPoly := by
  cases t with
  | «opaque» id b args ext => rw [resolveTy]; cases lookupType r ext id <;> rfl
  | _ => simp [resolveTy, isPoly]

/-! ### the serialised form and the bound are invariant -/

theorem encElem_resolve (r : Registry) (t : Ty) (ih : encTy (resolveTy r t) = encTy t) :
    encElem (resolveTy r t) = encElem t := by
  simp [encElem, isPoly_resolveTy, ih]

theorem encRow_resolveRow (r : Registry) (ts : List Ty) (ih : ∀ t ∈ ts, encTy (resolveTy r t) = encTy t) :
    encRow (resolveRow r ts) = encRow ts := by
  rw [encRow_eq_mapM, encRow_eq_mapM, resolveRow_eq_map]
  exact ExceptList.mapM_map_congr encElem (resolveTy r) ts (fun t ht => encElem_resolve r t (ih t ht))

theorem encRows_resolveRows (r : Registry) (rows : List (List Ty))
    (ih : ∀ row ∈ rows, ∀ t ∈ row, encTy (resolveTy r t) = encTy t) :
    encRows (resolveRows r rows) = encRows rows := by
  rw [encRows_eq_mapM, encRows_eq_mapM, resolveRows_eq_map]
  exact ExceptList.mapM_map_congr _ (resolveRow r) rows (fun row hr => by rw [encRow_resolveRow r row (ih row hr)])

theorem encArgs_resolveArgs (r : Registry) (as : List TypeArg) (ih : ∀ a ∈ as, encArg (resolveArg r a) = encArg a) :
    encArgs (resolveArgs r as) = encArgs as := by
  rw [encArgs_eq_mapM, encArgs_eq_mapM, resolveArgs_eq_map]
  exact ExceptList.mapM_map_congr encArg (resolveArg r) as ih

theorem boundRow_resolveRow (r : Registry) (ts : List Ty) (ih : ∀ t ∈ ts, bound (resolveTy r t) = bound t) :
    boundRow (resolveRow r ts) = boundRow ts := by
  rw [boundRow_eq_mapM, boundRow_eq_mapM, resolveRow_eq_map]
  exact ExceptList.mapM_map_congr bound (resolveTy r) ts ih

theorem boundRows_resolveRows (r : Registry) (rows : List (List Ty))
    (ih : ∀ row ∈ rows, ∀ t ∈ row, bound (resolveTy r t) = bound t) :
    boundRows (resolveRows r rows) = boundRows rows := by
  rw [boundRows_eq_mapM, boundRows_eq_mapM, resolveRows_eq_map,
    ExceptList.mapM_map_congr boundRow (resolveRow r) rows (fun row hr => boundRow_resolveRow r row (ih row hr))]

/-- the statement proved by induction on the expression: under consistency of the expression,
    resolution changes neither the serialised form nor the bound -/
def WireOK (r : Registry) (t : Ty) : Prop :=
  consistentTy r t = true → encTy (resolveTy r t) = encTy t ∧ bound (resolveTy r t) = bound t
def WireOKArg (r : Registry) (a : TypeArg) : Prop :=
  consistentArg r a = true → encArg (resolveArg r a) = encArg a ∧ argBound (resolveArg r a) = argBound a

theorem wire_all (r : Registry) (hwf : RegistryWf r) : (∀ t, WireOK r t) ∧ (∀ a, WireOKArg r a) := by
  refine ⟨@induct_ty (WireOK r) (WireOKArg r) ?_ ?_ ?_ ?_ ?_ ?_ ?_ ?_ ?_ ?_ ?_ ?_ ?_ ?_ ?_ ?_ ?_,
          @induct_arg (WireOK r) (WireOKArg r) ?_ ?_ ?_ ?_ ?_ ?_ ?_ ?_ ?_ ?_ ?_ ?_ ?_ ?_ ?_ ?_ ?_⟩
  all_goals first
    | -- sums
      intro rows ih hc
      rw [consistentTy, consistentRows_iff] at hc
      constructor
      · rw [resolveTy, encTy, encTy, encRows_resolveRows r rows (fun row hr t ht => (ih row hr t ht (hc row hr t ht)).1)]
      · rw [resolveTy, bound_sum, bound_sum,
          boundRows_resolveRows r rows (fun row hr t ht => (ih row hr t ht (hc row hr t ht)).2)]
    | -- function types
      intro i o rq ihi iho hc
      rw [consistentTy, Bool.and_eq_true, consistentRow_iff, consistentRow_iff] at hc
      constructor
      · rw [resolveTy, encTy, encTy, encRow_resolveRow r i (fun t ht => (ihi t ht (hc.1 t ht)).1),
          encRow_resolveRow r o (fun t ht => (iho t ht (hc.2 t ht)).1)]
      · rfl
    | -- polymorphic function types
      intro ps i o rq ihi iho hc
      rw [consistentTy, Bool.and_eq_true, consistentRow_iff, consistentRow_iff] at hc
      constructor
      · rw [resolveTy, encTy, encTy, encRow_resolveRow r i (fun t ht => (ihi t ht (hc.1 t ht)).1),
          encRow_resolveRow r o (fun t ht => (iho t ht (hc.2 t ht)).1)]
      · rfl
    | -- opaque types
      intro id b args ext ih hc
      rw [consistentTy, Bool.and_eq_true, consistentArgs_iff] at hc
      obtain ⟨hca, hcb⟩ := hc
      have hargsE : encArgs (resolveArgs r args) = encArgs args :=
        encArgs_resolveArgs r args (fun a ha => (ih a ha (hca a ha)).1)
      have hargsB : (resolveArgs r args).map argBound = args.map argBound := by
        rw [resolveArgs_eq_map, List.map_map]
        exact List.map_congr_left (fun a ha => (ih a ha (hca a ha)).2)
      rw [resolveTy]
      cases hl : lookupType r ext id with
      | none =>
        simp only []
        exact ⟨by rw [encTy, encTy, hargsE], rfl⟩
      | some td =>
        simp only [hl] at hcb ⊢
        obtain ⟨hde, hdn⟩ := typeDefRef_names r hwf ext id td hl
        have hb : bound (.extType (typeDefRef td) args) = .ok b := by
          cases hbb : bound (.extType (typeDefRef td) args) with
          | error e => rw [hbb] at hcb; simp at hcb
          | ok b' => rw [hbb] at hcb; simp at hcb; rw [hcb]
        have hb' : bound (.extType (typeDefRef td) (resolveArgs r args)) = .ok b := by
          rw [bound_extType_congr (typeDefRef td) args _ hargsB, hb]
        refine ⟨?_, ?_⟩
        · rw [encTy, encTy, hb', hargsE, hde, hdn]; rfl
        · rw [hb']; rfl
    | -- a type as an argument
      intro t ih hc
      rw [consistentArg] at hc
      obtain ⟨h1, h2⟩ := ih hc
      exact ⟨by rw [resolveArg, encArg_type_eq, encArg_type_eq, isPoly_resolveTy, h1], by simp [resolveArg, argBound, h2]⟩
    | -- a sequence of arguments
      intro es ih hc
      rw [consistentArg, consistentArgs_iff] at hc
      exact ⟨by rw [resolveArg, encArg, encArg, encArgs_resolveArgs r es (fun a ha => (ih a ha (hc a ha)).1)], rfl⟩
    | -- everything else is returned as it is
      intros
      exact fun _ => ⟨by simp [resolveTy, resolveArg], by simp [resolveTy, resolveArg]⟩

/-! ### the exported model term is invariant -/

theorem toModelRow_eq_mapM (ts : List Ty) : toModelRow ts = ts.mapM toModel := by
  induction ts with
  | nil => rfl
  | cons t ts ih =>
    rw [ExceptList.mapM_cons, ← ih, toModelRow]
    cases toModel t <;> simp only [bind, Except.bind, pure, Except.pure]
    cases toModelRow ts <;> rfl

theorem toModelRows_eq_mapM (rows : List (List Ty)) :
    toModelRows rows = rows.mapM (fun r => (toModelRow r).map MTerm.list) := by
  induction rows with
  | nil => rfl
  | cons t ts ih =>
    rw [ExceptList.mapM_cons, ← ih, toModelRows]
    cases toModelRow t <;> simp only [bind, Except.bind, pure, Except.pure, Except.map]
    cases toModelRows ts <;> rfl

theorem toModelArgs_eq_mapM (as : List TypeArg) : toModelArgs as = as.mapM toModelArg := by
  induction as with
  | nil => rfl
  | cons t ts ih =>
    rw [ExceptList.mapM_cons, ← ih, toModelArgs]
    cases toModelArg t <;> simp only [bind, Except.bind, pure, Except.pure]
    cases toModelArgs ts <;> rfl

theorem toModelRow_resolve (r : Registry) (ts : List Ty) (ih : ∀ t ∈ ts, toModel (resolveTy r t) = toModel t) :
    toModelRow (resolveRow r ts) = toModelRow ts := by
  rw [toModelRow_eq_mapM, toModelRow_eq_mapM, resolveRow_eq_map]
  exact ExceptList.mapM_map_congr toModel (resolveTy r) ts ih

theorem toModelRows_resolve (r : Registry) (rows : List (List Ty))
    (ih : ∀ row ∈ rows, ∀ t ∈ row, toModel (resolveTy r t) = toModel t) :
    toModelRows (resolveRows r rows) = toModelRows rows := by
  rw [toModelRows_eq_mapM, toModelRows_eq_mapM, resolveRows_eq_map]
  exact ExceptList.mapM_map_congr _ (resolveRow r) rows (fun row hr => by rw [toModelRow_resolve r row (ih row hr)])

theorem toModelArgs_resolve (r : Registry) (as : List TypeArg)
    (ih : ∀ a ∈ as, toModelArg (resolveArg r a) = toModelArg a) :
    toModelArgs (resolveArgs r as) = toModelArgs as := by
  rw [toModelArgs_eq_mapM, toModelArgs_eq_mapM, resolveArgs_eq_map]
  exact ExceptList.mapM_map_congr toModelArg (resolveArg r) as ih

theorem model_all (r : Registry) (hwf : RegistryWf r) :
    (∀ t, toModel (resolveTy r t) = toModel t) ∧ (∀ a, toModelArg (resolveArg r a) = toModelArg a) := by
  refine ⟨@induct_ty (fun t => toModel (resolveTy r t) = toModel t) (fun a => toModelArg (resolveArg r a) = toModelArg a)
            ?_ ?_ ?_ ?_ ?_ ?_ ?_ ?_ ?_ ?_ ?_ ?_ ?_ ?_ ?_ ?_ ?_,
          @induct_arg (fun t => toModel (resolveTy r t) = toModel t) (fun a => toModelArg (resolveArg r a) = toModelArg a)
            ?_ ?_ ?_ ?_ ?_ ?_ ?_ ?_ ?_ ?_ ?_ ?_ ?_ ?_ ?_ ?_ ?_⟩
  all_goals first
    | intro rows ih
      rw [resolveTy, toModel, toModel, toModelRows_resolve r rows ih]
    | intro i o rq ihi iho
      rw [resolveTy, toModel, toModel, toModelRow_resolve r i ihi, toModelRow_resolve r o iho]
    | intro id b args ext ih
      rw [resolveTy]
      cases hl : lookupType r ext id with
      | none => simp only []; rw [toModel, toModel, toModelArgs_resolve r args ih]
      | some td =>
        simp only []
        obtain ⟨hde, hdn⟩ := typeDefRef_names r hwf ext id td hl
        rw [toModel, toModel, toModelArgs_resolve r args ih, hde, hdn]
    | intro t ih
      rw [resolveArg, toModelArg, toModelArg, ih]
    | intro es ih
      rw [resolveArg, toModelArg, toModelArg, toModelArgs_resolve r es ih]
    | intros
      rfl

/-! ### resolving twice is resolving once -/

theorem idem_opaque (r : Registry) (id : String) (b : Bound) (args : List TypeArg) (ext : String)
    (ih : ∀ a ∈ args, resolveArg r (resolveArg r a) = resolveArg r a) :
    resolveTy r (resolveTy r (.opaque id b args ext)) = resolveTy r (.opaque id b args ext) := by
  have h1 : resolveArgs r (resolveArgs r args) = resolveArgs r args := by
    rw [resolveArgs_eq_map, resolveArgs_eq_map, List.map_map]; exact List.map_congr_left ih
  rw [resolveTy]
  cases hl : lookupType r ext id with
  | none => simp only []; rw [resolveTy, hl]; simp only []; rw [h1]
  | some td => simp [resolveTy]

theorem idem_all (r : Registry) :
    (∀ t, resolveTy r (resolveTy r t) = resolveTy r t) ∧ (∀ a, resolveArg r (resolveArg r a) = resolveArg r a) := by
  refine ⟨@induct_ty (fun t => resolveTy r (resolveTy r t) = resolveTy r t) (fun a => resolveArg r (resolveArg r a) = resolveArg r a)
            ?_ ?_ ?_ ?_ ?_ ?_ ?_ ?_ ?_ ?_ ?_ ?_ ?_ ?_ ?_ ?_ ?_,
          @induct_arg (fun t => resolveTy r (resolveTy r t) = resolveTy r t) (fun a => resolveArg r (resolveArg r a) = resolveArg r a)
            ?_ ?_ ?_ ?_ ?_ ?_ ?_ ?_ ?_ ?_ ?_ ?_ ?_ ?_ ?_ ?_ ?_⟩
  all_goals first
    | intro rows ih
      have : resolveRows r (resolveRows r rows) = resolveRows r rows := by
        rw [resolveRows_eq_map, resolveRows_eq_map, List.map_map]
        refine List.map_congr_left (fun row hr => ?_)
        simp only [Function.comp, resolveRow_eq_map, List.map_map]
        exact List.map_congr_left (fun t ht => ih row hr t ht)
      rw [resolveTy, resolveTy, this]
    | intro i o rq ihi iho
      have h1 : resolveRow r (resolveRow r i) = resolveRow r i := by
        rw [resolveRow_eq_map, resolveRow_eq_map, List.map_map]; exact List.map_congr_left ihi
      have h2 : resolveRow r (resolveRow r o) = resolveRow r o := by
        rw [resolveRow_eq_map, resolveRow_eq_map, List.map_map]; exact List.map_congr_left iho
      rw [resolveTy, resolveTy, h1, h2]
    | intro ps i o rq ihi iho
      have h1 : resolveRow r (resolveRow r i) = resolveRow r i := by
        rw [resolveRow_eq_map, resolveRow_eq_map, List.map_map]; exact List.map_congr_left ihi
      have h2 : resolveRow r (resolveRow r o) = resolveRow r o := by
        rw [resolveRow_eq_map, resolveRow_eq_map, List.map_map]; exact List.map_congr_left iho
      rw [resolveTy, resolveTy, h1, h2]
    | intro id b args ext ih
      exact idem_opaque r id b args ext ih
    | intro t ih
      rw [resolveArg, resolveArg, ih]
    | intro es ih
      have h1 : resolveArgs r (resolveArgs r es) = resolveArgs r es := by
        rw [resolveArgs_eq_map, resolveArgs_eq_map, List.map_map]; exact List.map_congr_left ih
      rw [resolveArg, resolveArg, h1]
    | intros
      rfl

/-! ### resolution depends only on the definitions that are looked up; what it leaves behind -/

theorem congr_all (r r' : Registry) :
    (∀ t, (∀ x ∈ opaques t, lookupType r x.1 x.2 = lookupType r' x.1 x.2) → resolveTy r t = resolveTy r' t) ∧
    (∀ a, (∀ x ∈ opaquesArg a, lookupType r x.1 x.2 = lookupType r' x.1 x.2) → resolveArg r a = resolveArg r' a) := by
  refine ⟨@induct_ty
            (fun t => (∀ x ∈ opaques t, lookupType r x.1 x.2 = lookupType r' x.1 x.2) → resolveTy r t = resolveTy r' t)
            (fun a => (∀ x ∈ opaquesArg a, lookupType r x.1 x.2 = lookupType r' x.1 x.2) → resolveArg r a = resolveArg r' a)
            ?_ ?_ ?_ ?_ ?_ ?_ ?_ ?_ ?_ ?_ ?_ ?_ ?_ ?_ ?_ ?_ ?_,
          @induct_arg
            (fun t => (∀ x ∈ opaques t, lookupType r x.1 x.2 = lookupType r' x.1 x.2) → resolveTy r t = resolveTy r' t)
            (fun a => (∀ x ∈ opaquesArg a, lookupType r x.1 x.2 = lookupType r' x.1 x.2) → resolveArg r a = resolveArg r' a)
            ?_ ?_ ?_ ?_ ?_ ?_ ?_ ?_ ?_ ?_ ?_ ?_ ?_ ?_ ?_ ?_ ?_⟩
  all_goals first
    | intro rows ih h
      rw [opaques] at h
      have : resolveRows r rows = resolveRows r' rows := by
        rw [resolveRows_eq_map, resolveRows_eq_map]
        refine List.map_congr_left (fun row hr => ?_)
        rw [resolveRow_eq_map, resolveRow_eq_map]
        exact List.map_congr_left (fun t ht => ih row hr t ht
          (fun x hx => h x ((opaquesRows_mem rows x).2 ⟨row, hr, t, ht, hx⟩)))
      rw [resolveTy, resolveTy, this]
    | intro i o rq ihi iho h
      rw [opaques] at h
      have h1 : resolveRow r i = resolveRow r' i := by
        rw [resolveRow_eq_map, resolveRow_eq_map]
        exact List.map_congr_left (fun t ht => ihi t ht
          (fun x hx => h x (List.mem_append_left _ ((opaquesRow_mem i x).2 ⟨t, ht, hx⟩))))
      have h2 : resolveRow r o = resolveRow r' o := by
        rw [resolveRow_eq_map, resolveRow_eq_map]
        exact List.map_congr_left (fun t ht => iho t ht
          (fun x hx => h x (List.mem_append_right _ ((opaquesRow_mem o x).2 ⟨t, ht, hx⟩))))
      rw [resolveTy, resolveTy, h1, h2]
    | intro ps i o rq ihi iho h
      rw [opaques] at h
      have h1 : resolveRow r i = resolveRow r' i := by
        rw [resolveRow_eq_map, resolveRow_eq_map]
        exact List.map_congr_left (fun t ht => ihi t ht
          (fun x hx => h x (List.mem_append_left _ ((opaquesRow_mem i x).2 ⟨t, ht, hx⟩))))
      have h2 : resolveRow r o = resolveRow r' o := by
        rw [resolveRow_eq_map, resolveRow_eq_map]
        exact List.map_congr_left (fun t ht => iho t ht
          (fun x hx => h x (List.mem_append_right _ ((opaquesRow_mem o x).2 ⟨t, ht, hx⟩))))
      rw [resolveTy, resolveTy, h1, h2]
    | intro id b args ext ih h
      rw [opaques] at h
      have h1 : resolveArgs r args = resolveArgs r' args := by
        rw [resolveArgs_eq_map, resolveArgs_eq_map]
        exact List.map_congr_left (fun a ha => ih a ha
          (fun x hx => h x (List.mem_cons_of_mem _ ((opaquesArgs_mem args x).2 ⟨a, ha, hx⟩))))
      have h0 := h (ext, id) List.mem_cons_self
      simp only at h0
      rw [resolveTy, resolveTy, h0, h1]
    | intro t ih h
      rw [opaquesArg] at h
      rw [resolveArg, resolveArg, ih h]
    | intro es ih h
      rw [opaquesArg] at h
      have h1 : resolveArgs r es = resolveArgs r' es := by
        rw [resolveArgs_eq_map, resolveArgs_eq_map]
        exact List.map_congr_left (fun a ha => ih a ha (fun x hx => h x ((opaquesArgs_mem es x).2 ⟨a, ha, hx⟩)))
      rw [resolveArg, resolveArg, h1]
    | intros
      simp [resolveTy, resolveArg]

/-- after resolution no opaque type that names a known definition is left at any depth -/
theorem remaining_all (r : Registry) :
    (∀ t, ∀ x ∈ opaques (resolveTy r t), lookupType r x.1 x.2 = none) ∧
    (∀ a, ∀ x ∈ opaquesArg (resolveArg r a), lookupType r x.1 x.2 = none) := by
  refine ⟨@induct_ty (fun t => ∀ x ∈ opaques (resolveTy r t), lookupType r x.1 x.2 = none)
            (fun a => ∀ x ∈ opaquesArg (resolveArg r a), lookupType r x.1 x.2 = none)
            ?_ ?_ ?_ ?_ ?_ ?_ ?_ ?_ ?_ ?_ ?_ ?_ ?_ ?_ ?_ ?_ ?_,
          @induct_arg (fun t => ∀ x ∈ opaques (resolveTy r t), lookupType r x.1 x.2 = none)
            (fun a => ∀ x ∈ opaquesArg (resolveArg r a), lookupType r x.1 x.2 = none)
            ?_ ?_ ?_ ?_ ?_ ?_ ?_ ?_ ?_ ?_ ?_ ?_ ?_ ?_ ?_ ?_ ?_⟩
  all_goals first
    | intro rows ih x hx
      rw [resolveTy, opaques, opaquesRows_mem] at hx
      obtain ⟨row', hr', t', ht', hx'⟩ := hx
      rw [resolveRows_eq_map, List.mem_map] at hr'
      obtain ⟨row, hr, rfl⟩ := hr'
      rw [resolveRow_eq_map, List.mem_map] at ht'
      obtain ⟨t, ht, rfl⟩ := ht'
      exact ih row hr t ht x hx'
    | intro i o rq ihi iho x hx
      rw [resolveTy, opaques, List.mem_append, opaquesRow_mem, opaquesRow_mem] at hx
      rcases hx with ⟨t', ht', hx'⟩ | ⟨t', ht', hx'⟩
      · rw [resolveRow_eq_map, List.mem_map] at ht'
        obtain ⟨t, ht, rfl⟩ := ht'
        exact ihi t ht x hx'
      · rw [resolveRow_eq_map, List.mem_map] at ht'
        obtain ⟨t, ht, rfl⟩ := ht'
        exact iho t ht x hx'
    | intro ps i o rq ihi iho x hx
      rw [resolveTy, opaques, List.mem_append, opaquesRow_mem, opaquesRow_mem] at hx
      rcases hx with ⟨t', ht', hx'⟩ | ⟨t', ht', hx'⟩
      · rw [resolveRow_eq_map, List.mem_map] at ht'
        obtain ⟨t, ht, rfl⟩ := ht'
        exact ihi t ht x hx'
      · rw [resolveRow_eq_map, List.mem_map] at ht'
        obtain ⟨t, ht, rfl⟩ := ht'
        exact iho t ht x hx'
    | intro id b args ext ih x hx
      rw [resolveTy] at hx
      cases hl : lookupType r ext id with
      | some td => rw [hl] at hx; simp [opaques] at hx
      | none =>
        rw [hl] at hx
        simp only [opaques, List.mem_cons] at hx
        rcases hx with rfl | hx
        · exact hl
        · rw [opaquesArgs_mem] at hx
          obtain ⟨a', ha', hx'⟩ := hx
          rw [resolveArgs_eq_map, List.mem_map] at ha'
          obtain ⟨a, ha, rfl⟩ := ha'
          exact ih a ha x hx'
    | intro t ih x hx
      rw [resolveArg, opaquesArg] at hx
      exact ih x hx
    | intro es ih x hx
      rw [resolveArg, opaquesArg, opaquesArgs_mem] at hx
      obtain ⟨a', ha', hx'⟩ := hx
      rw [resolveArgs_eq_map, List.mem_map] at ha'
      obtain ⟨a, ha, rfl⟩ := ha'
      exact ih a ha x hx'
    | intros
      simp_all [resolveTy, resolveArg, opaques, opaquesArg]

theorem map_eq_self {α : Type} (f : α → α) (l : List α) (h : ∀ x ∈ l, f x = x) : l.map f = l := by
  induction l with
  | nil => rfl
  | cons a l ih =>
    rw [List.map_cons, h a List.mem_cons_self, ih (fun x hx => h x (List.mem_cons_of_mem _ hx))]

/-- an expression without an opaque type naming a known definition is returned unchanged -/
theorem untouched_all (r : Registry) :
    (∀ t, (∀ x ∈ opaques t, lookupType r x.1 x.2 = none) → resolveTy r t = t) ∧
    (∀ a, (∀ x ∈ opaquesArg a, lookupType r x.1 x.2 = none) → resolveArg r a = a) := by
  refine ⟨@induct_ty (fun t => (∀ x ∈ opaques t, lookupType r x.1 x.2 = none) → resolveTy r t = t)
            (fun a => (∀ x ∈ opaquesArg a, lookupType r x.1 x.2 = none) → resolveArg r a = a)
            ?_ ?_ ?_ ?_ ?_ ?_ ?_ ?_ ?_ ?_ ?_ ?_ ?_ ?_ ?_ ?_ ?_,
          @induct_arg (fun t => (∀ x ∈ opaques t, lookupType r x.1 x.2 = none) → resolveTy r t = t)
            (fun a => (∀ x ∈ opaquesArg a, lookupType r x.1 x.2 = none) → resolveArg r a = a)
            ?_ ?_ ?_ ?_ ?_ ?_ ?_ ?_ ?_ ?_ ?_ ?_ ?_ ?_ ?_ ?_ ?_⟩
  all_goals first
    | intro rows ih h
      rw [opaques] at h
      have : resolveRows r rows = rows := by
        rw [resolveRows_eq_map]
        refine map_eq_self _ _ (fun row hr => ?_)
        rw [resolveRow_eq_map]
        exact map_eq_self _ _ (fun t ht => ih row hr t ht
          (fun x hx => h x ((opaquesRows_mem rows x).2 ⟨row, hr, t, ht, hx⟩)))
      rw [resolveTy, this]
    | intro i o rq ihi iho h
      rw [opaques] at h
      have h1 : resolveRow r i = i := by
        rw [resolveRow_eq_map]
        exact map_eq_self _ _ (fun t ht => ihi t ht
          (fun x hx => h x (List.mem_append_left _ ((opaquesRow_mem i x).2 ⟨t, ht, hx⟩))))
      have h2 : resolveRow r o = o := by
        rw [resolveRow_eq_map]
        exact map_eq_self _ _ (fun t ht => iho t ht
          (fun x hx => h x (List.mem_append_right _ ((opaquesRow_mem o x).2 ⟨t, ht, hx⟩))))
      rw [resolveTy, h1, h2]
    | intro ps i o rq ihi iho h
      rw [opaques] at h
      have h1 : resolveRow r i = i := by
        rw [resolveRow_eq_map]
        exact map_eq_self _ _ (fun t ht => ihi t ht
          (fun x hx => h x (List.mem_append_left _ ((opaquesRow_mem i x).2 ⟨t, ht, hx⟩))))
      have h2 : resolveRow r o = o := by
        rw [resolveRow_eq_map]
        exact map_eq_self _ _ (fun t ht => iho t ht
          (fun x hx => h x (List.mem_append_right _ ((opaquesRow_mem o x).2 ⟨t, ht, hx⟩))))
      rw [resolveTy, h1, h2]
    | intro id b args ext ih h
      rw [opaques] at h
      have h1 : resolveArgs r args = args := by
        rw [resolveArgs_eq_map]
        exact map_eq_self _ _ (fun a ha => ih a ha
          (fun x hx => h x (List.mem_cons_of_mem _ ((opaquesArgs_mem args x).2 ⟨a, ha, hx⟩))))
      have h0 := h (ext, id) List.mem_cons_self
      simp only at h0
      rw [resolveTy, h0, h1]
    | intro t ih h
      rw [opaquesArg] at h
      rw [resolveArg, ih h]
    | intro es ih h
      rw [opaquesArg] at h
      have h1 : resolveArgs r es = es := by
        rw [resolveArgs_eq_map]
        exact map_eq_self _ _ (fun a ha => ih a ha (fun x hx => h x ((opaquesArgs_mem es x).2 ⟨a, ha, hx⟩)))
      rw [resolveArg, h1]
    | intros
      simp [resolveTy, resolveArg]

/-! ### operations -/

open HugrVerif.Op HugrVerif.OpProofs

/-- the operation with its free-text description replaced by its definition's, where resolution
    finds a definition (the one change of the serialised form the property allows) -/
def withDefDescription (r : Registry) : Op → Op
  | .custom n sig d e args =>
    match lookupOp r e n with
    | some od => .custom n sig od.description e args
    | none => .custom n sig d e args
  | op => op

theorem resolveSig_toTy (r : Registry) (s : Sig) : (resolveSig r s).toTy = resolveTy r s.toTy := by
  simp [resolveSig, Sig.toTy, resolveTy]

theorem consistentTy_sig (r : Registry) (s : Sig) :
    consistentTy r s.toTy = (consistentRow r s.inp && consistentRow r s.out) := by
  simp [Sig.toTy, consistentTy]

theorem encSig_resolveSig (r : Registry) (hwf : RegistryWf r) (s : Sig)
    (hc : (consistentRow r s.inp && consistentRow r s.out) = true) : encSig (resolveSig r s) = encSig s := by
  rw [encSig, encSig, resolveSig_toTy, ((wire_all r hwf).1 s.toTy (by rw [consistentTy_sig]; exact hc)).1]

theorem encArgsJ_resolveArgs (r : Registry) (hwf : RegistryWf r) (a : List TypeArg) (hc : consistentArgs r a = true) :
    encArgsJ (resolveArgs r a) = encArgsJ a := by
  rw [consistentArgs_iff] at hc
  simp only [encArgsJ, encArgs_resolveArgs r a (fun x hx => ((wire_all r hwf).2 x (hc x hx)).1)]

theorem resolveOp_not_custom (r : Registry) (op : Op) (h : ∀ n s d e a, op ≠ .custom n s d e a) : resolveOp r op = op := by
  cases op <;> first | rfl | exact absurd rfl (h _ _ _ _ _)

theorem withDefDescription_not_custom (r : Registry) (op : Op) (h : ∀ n s d e a, op ≠ .custom n s d e a) :
    withDefDescription r op = op := by
  cases op <;> first | rfl | exact absurd rfl (h _ _ _ _ _)

/-- **The serialised operation** after resolution is the serialised original with the description
    replaced by the definition's. -/
theorem encOp_resolveOp (r : Registry) (hwf : RegistryWf r) (op : Op) (hc : consistentOp r op = true) (p : Int) :
    encOp (resolveOp r op) p = encOp (withDefDescription r op) p := by
  by_cases hcu : ∃ n s d e a, op = .custom n s d e a
  · obtain ⟨n, s, d, e, a, rfl⟩ := hcu
    simp only [consistentOp, Bool.and_eq_true] at hc
    rw [resolveOp, withDefDescription]
    cases hl : lookupOp r e n with
    | none => rfl
    | some od =>
      simp only []
      obtain ⟨hde, hdn⟩ := opDefRef_names r hwf e n od hl
      have hs := encSig_resolveSig r hwf s (by simp [hc.1.1, hc.1.2])
      have ha := encArgsJ_resolveArgs r hwf a hc.2
      simp only [encOp, extOpCustom, hde, hdn, pure, Except.pure, bind, Except.bind, encCustom, hs, ha]
      rfl
  · have h : ∀ n s d e a, op ≠ .custom n s d e a := fun n s d e a he => hcu ⟨n, s, d, e, a, he⟩
    rw [resolveOp_not_custom r op h, withDefDescription_not_custom r op h]

/-- drop the member `description` of a JSON object -/
def eraseDescription : Json → Json
  | .obj kvs => .obj (kvs.filter (fun kv => kv.1 != "description"))
  | j => j

theorem encCustom_eraseDescription (p : Int) (n : String) (s : Sig) (d d' e : String) (a : List TypeArg) :
    (encCustom p n s d e a).map eraseDescription = (encCustom p n s d' e a).map eraseDescription := by
  simp only [encCustom, bind, Except.bind, pure, Except.pure]
  cases encSig s with
  | error _ => rfl
  | ok js =>
    cases encArgsJ a with
    | error _ => rfl
    | ok ja => simp [Except.map, eraseDescription, List.filter]

theorem encOp_withDefDescription (r : Registry) (op : Op) (p : Int) :
    (encOp (withDefDescription r op) p).map eraseDescription = (encOp op p).map eraseDescription := by
  by_cases hcu : ∃ n s d e a, op = .custom n s d e a
  · obtain ⟨n, s, d, e, a, rfl⟩ := hcu
    rw [withDefDescription]
    cases lookupOp r e n with
    | none => rfl
    | some od => simp only [encOp]; exact encCustom_eraseDescription p n s _ _ e a
  · have h : ∀ n s d e a, op ≠ .custom n s d e a := fun n s d e a he => hcu ⟨n, s, d, e, a, he⟩
    rw [withDefDescription_not_custom r op h]

/-! #### derived facts -/

/-- how a signature looks from outside: its serialised form and the bounds of its port types -/
def sigView (s : Sig) : Except OpErr Json × List (Except BErr Bound) × List (Except BErr Bound) :=
  (encSig s, s.inp.map bound, s.out.map bound)

/-- how a port kind looks from outside: its class, and for a typed port the serialised type and its bound -/
def kindView : Kind → String × Option (Except EncErr Json × Except BErr Bound)
  | .value t => ("value", some (encElem t, bound t))
  | .const t => ("const", some (encElem t, bound t))
  | .function p => ("function", some (encTy p.toTy, .ok .copyable))
  | .cf => ("cf", none)
  | .order => ("order", none)

theorem map_bound_resolveRow (r : Registry) (hwf : RegistryWf r) (ts : List Ty) (hc : consistentRow r ts = true) :
    (resolveRow r ts).map bound = ts.map bound := by
  rw [consistentRow_iff] at hc
  rw [resolveRow_eq_map, List.map_map]
  exact List.map_congr_left (fun t ht => ((wire_all r hwf).1 t (hc t ht)).2)

theorem sigView_resolveSig (r : Registry) (hwf : RegistryWf r) (s : Sig)
    (hi : consistentRow r s.inp = true) (ho : consistentRow r s.out = true) : sigView (resolveSig r s) = sigView s := by
  simp only [sigView, encSig_resolveSig r hwf s (by simp [hi, ho])]
  simp only [resolveSig, map_bound_resolveRow r hwf _ hi, map_bound_resolveRow r hwf _ ho]

theorem sigPortType_resolveSig (r : Registry) (s : Sig) (d : Dir) (off : Int) :
    sigPortType (resolveSig r s) d off = (sigPortType s d off).map (resolveTy r) := by
  unfold sigPortType resolveSig
  by_cases h : off = -1
  · simp [h, Except.map]
  · cases d <;> simp [h, resolveRow_eq_map, index_map]

theorem index_mem {α : Type} (l : List α) (i : Int) (a : α) (h : index l i = .ok a) : a ∈ l := by
  unfold index at h
  cases hp : Ty.pyIndex l i with
  | none => rw [hp] at h; cases h
  | some b => rw [hp] at h; cases h; exact Ty.pyIndex_mem l i a hp

theorem sigPortType_mem (s : Sig) (d : Dir) (off : Int) (t : Ty) (h : sigPortType s d off = .ok t) :
    t ∈ s.inp ∨ t ∈ s.out := by
  unfold sigPortType at h
  split at h
  · cases h
  · cases d
    · exact Or.inl (index_mem _ _ _ h)
    · exact Or.inr (index_mem _ _ _ h)

theorem portKind_custom (n : String) (s : Sig) (d e : String) (a : List TypeArg) (dir : Dir) (off : Int) :
    portKind (.custom n s d e a) dir off =
      if off = -1 then .ok .order else (sigPortType s dir off).map Kind.value := by
  simp only [portKind, dfPortKind, portType, isDataflowOp, outerSig, if_true, bind, Except.bind, pure, Except.pure]
  split
  · rfl
  · cases sigPortType s dir off <;> rfl

theorem portKind_extOp_some (dd : OpDefRef) (s : Sig) (a : List TypeArg) (dir : Dir) (off : Int) :
    portKind (.extOp dd (some s) a) dir off =
      if off = -1 then .ok .order else (sigPortType s dir off).map Kind.value := by
  simp only [portKind, dfPortKind, portType, isDataflowOp, outerSig, if_true, bind, Except.bind, pure, Except.pure]
  split
  · rfl
  · cases sigPortType s dir off <;> rfl

theorem kindView_value_resolve (r : Registry) (hwf : RegistryWf r) (t : Ty) (hc : consistentTy r t = true) :
    kindView (.value (resolveTy r t)) = kindView (.value t) := by
  obtain ⟨h1, h2⟩ := (wire_all r hwf).1 t hc
  simp [kindView, encElem_resolve r t h1, h2]

/-- **Derived facts** of an operation are the same after resolution: the signature as seen from
    outside, the number of outputs, and every port's kind, serialised type and bound. -/
theorem facts_resolveOp (r : Registry) (hwf : RegistryWf r) (op : Op) (hc : consistentOp r op = true) :
    (outerSig (resolveOp r op)).map sigView = (outerSig op).map sigView ∧
    numOut (resolveOp r op) = numOut op ∧
    ∀ dir off, (portKind (resolveOp r op) dir off).map kindView = (portKind op dir off).map kindView := by
  by_cases hcu : ∃ n s d e a, op = .custom n s d e a
  · obtain ⟨n, s, d, e, a, rfl⟩ := hcu
    simp only [consistentOp, Bool.and_eq_true] at hc
    rw [resolveOp]
    cases hl : lookupOp r e n with
    | none => exact ⟨rfl, rfl, fun _ _ => rfl⟩
    | some od =>
      simp only []
      refine ⟨?_, ?_, ?_⟩
      · simp only [outerSig, Except.map, sigView_resolveSig r hwf s hc.1.1 hc.1.2]
      · simp [numOut, outerSig, bind, Except.bind, pure, Except.pure, resolveSig, resolveRow_eq_map]
      · intro dir off
        rw [portKind_custom, portKind_extOp_some]
        split
        · rfl
        · rw [sigPortType_resolveSig]
          cases hs : sigPortType s dir off with
          | error _ => rfl
          | ok t =>
            have hm := sigPortType_mem s dir off t hs
            have hct : consistentTy r t = true := by
              rcases hm with hm | hm
              · exact (consistentRow_iff r s.inp).1 hc.1.1 t hm
              · exact (consistentRow_iff r s.out).1 hc.1.2 t hm
            simp only [Except.map, kindView_value_resolve r hwf t hct]
  · have h : ∀ n s d e a, op ≠ .custom n s d e a := fun n s d e a he => hcu ⟨n, s, d, e, a, he⟩
    rw [resolveOp_not_custom r op h]
    exact ⟨rfl, rfl, fun _ _ => rfl⟩

theorem resolveOp_idem (r : Registry) (op : Op) : resolveOp r (resolveOp r op) = resolveOp r op := by
  by_cases hcu : ∃ n s d e a, op = .custom n s d e a
  · obtain ⟨n, s, d, e, a, rfl⟩ := hcu
    rw [resolveOp]
    cases hl : lookupOp r e n with
    | none => simp only []; rw [resolveOp, hl]
    | some od => rfl
  · have h : ∀ n s d e a, op ≠ .custom n s d e a := fun n s d e a he => hcu ⟨n, s, d, e, a, he⟩
    rw [resolveOp_not_custom r op h, resolveOp_not_custom r op h]

/-! ### whole HUGRs -/

section store
open HugrVerif.Store HugrVerif.Serial
variable {μ : Type}

/-- apply `f` to the operation of every live node; nothing else of the store is touched -/
def mapOps (f : Op → Op) (s : Store Op μ) : Store Op μ :=
  { s with nodes := s.nodes.map (Option.map fun d => { d with op := f d.op }) }

theorem resolveNodes_eq_map (r : Registry) (ns : List (Option (NodeData Op μ))) :
    resolveNodes r ns = ns.map (Option.map fun d => { d with op := resolveOp r d.op }) := by
  induction ns with
  | nil => rfl
  | cons n ns ih => cases n <;> simp [resolveNodes, ih]

theorem resolveStore_eq_mapOps (r : Registry) (s : Store Op μ) : resolveStore r s = mapOps (resolveOp r) s := by
  simp [resolveStore, mapOps, resolveNodes_eq_map]

theorem getNode_mapOps (f : Op → Op) (s : Store Op μ) (i : Nat) :
    getNode (mapOps f s) i = (getNode s i).map (fun d => { d with op := f d.op }) := by
  simp only [getNode, mapOps, List.getElem?_map]
  cases h : s.nodes[i]? with
  | none => rfl
  | some o => cases o <;> rfl

theorem liveNodes_mapOps (f : Op → Op) (s : Store Op μ) : liveNodes (mapOps f s) = liveNodes s := by
  simp only [liveNodes, mapOps, List.length_map]
  apply List.filter_congr
  intro i _
  simp only [List.getElem?_map]
  cases s.nodes[i]? with
  | none => rfl
  | some o => cases o <;> rfl

theorem hierLoop_mapOps (f : Op → Op) (s : Store Op μ) :
    ∀ (fuel : Nat) (ready : List Nat) (ns : Dict Nat Nat) (acc : List Nat),
      hierLoop (mapOps f s) fuel ready ns acc = hierLoop s fuel ready ns acc
  | 0, _, _, _ => rfl
  | fuel + 1, ready, ns, acc => by
    rw [hierLoop, hierLoop]
    cases popMin ready with
    | none => rfl
    | some p =>
      obtain ⟨idx, rd⟩ := p
      simp only []
      rw [getNode_mapOps]
      cases getNode s idx with
      | error e => rfl
      | ok d =>
        simp only [Except.map]
        cases Dict.get idx (recordSiblings ns d.children) with
        | none => simp only []; exact hierLoop_mapOps f s fuel _ _ _
        | some sib => simp only []; exact hierLoop_mapOps f s fuel _ _ _

theorem hierarchyOrder_mapOps (f : Op → Op) (s : Store Op μ) : hierarchyOrder (mapOps f s) = hierarchyOrder s := by
  unfold hierarchyOrder
  rw [liveNodes_mapOps, hierLoop_mapOps]
  simp [mapOps]

theorem mapOps_mapOps (f g : Op → Op) (s : Store Op μ) : mapOps f (mapOps g s) = mapOps (fun op => f (g op)) s := by
  simp only [mapOps, List.map_map]
  congr 1
  apply List.map_congr_left
  intro o _
  cases o <;> rfl

theorem mapOps_congr (f g : Op → Op) (s : Store Op μ) (h : ∀ i d, getNode s i = .ok d → f d.op = g d.op) :
    mapOps f s = mapOps g s := by
  simp only [mapOps]
  congr 1
  apply List.map_congr_left
  intro o ho
  cases o with
  | none => rfl
  | some d =>
    obtain ⟨i, hi⟩ := List.getElem?_of_mem ho
    have : getNode s i = .ok d := by simp [getNode, hi]
    simp [h i d this]

theorem mapOps_id (s : Store Op μ) : mapOps (fun op => op) s = s := by
  cases s with
  | mk nodes links free root =>
    simp only [mapOps]
    congr 1
    refine map_eq_self _ _ (fun o _ => ?_)
    cases o <;> rfl

/-! #### the serialised document -/

theorem serialNode_mapOps_congr (c : OpCodec Op) (f g : Op → Op) (s : St Op) (order : List Nat) (i : Nat)
    (h : ∀ d, getNode s i = .ok d → ∀ p, c.enc (f d.op) p = c.enc (g d.op) p) :
    serialNode c (mapOps f s) order i = serialNode c (mapOps g s) order i := by
  unfold serialNode
  rw [getNode_mapOps, getNode_mapOps]
  cases hg : getNode s i with
  | error e => rfl
  | ok d =>
    simp only [liftS, Except.map]
    cases rekey order (d.parent.getD i) with
    | error e => rfl
    | ok p => simp only []; rw [h d hg p]

theorem constrainOffset_mapOps_congr (c : OpCodec Op) (f g : Op → Op) (s : St Op) (node : Nat) (off : Int) (inc : Bool)
    (h : ∀ d, getNode s node = .ok d → ∀ b, c.orderOff (f d.op) b = c.orderOff (g d.op) b) :
    constrainOffset c (mapOps f s) node off inc = constrainOffset c (mapOps g s) node off inc := by
  unfold constrainOffset
  rw [getNode_mapOps, getNode_mapOps]
  cases hg : getNode s node with
  | error e => rfl
  | ok d => simp only [liftS, Except.map]; rw [h d hg inc]

theorem serialLink_mapOps_congr (c : OpCodec Op) (f g : Op → Op) (s : St Op) (order : List Nat) (e : SubPort × SubPort)
    (h : ∀ i d, getNode s i = .ok d → ∀ b, c.orderOff (f d.op) b = c.orderOff (g d.op) b) :
    serialLink c (mapOps f s) order e = serialLink c (mapOps g s) order e := by
  unfold serialLink
  rw [constrainOffset_mapOps_congr c f g s e.1.node e.1.offset false (h e.1.node),
    constrainOffset_mapOps_congr c f g s e.2.node e.2.offset true (h e.2.node)]

/-- two ways of rewriting the operations that agree on what the codec reads of them give the same document -/
theorem toJson_mapOps_congr (c : OpCodec Op) (f g : Op → Op) (s : St Op) (enc : String)
    (h : ∀ i d, getNode s i = .ok d →
      (∀ p, c.enc (f d.op) p = c.enc (g d.op) p) ∧ ∀ b, c.orderOff (f d.op) b = c.orderOff (g d.op) b) :
    toJson c enc (mapOps f s) = toJson c enc (mapOps g s) := by
  unfold toJson toSerial
  rw [hierarchyOrder_mapOps, hierarchyOrder_mapOps]
  cases hierarchyOrder s with
  | error e => rfl
  | ok order =>
    simp only [liftS]
    have hn : order.mapM (serialNode c (mapOps f s) order) = order.mapM (serialNode c (mapOps g s) order) :=
      ExceptList.mapM_congr _ _ order (fun i _ => serialNode_mapOps_congr c f g s order i (fun d hd => (h i d hd).1))
    have hl : (mapOps f s).links.fwd.mapM (serialLink c (mapOps f s) order)
        = (mapOps g s).links.fwd.mapM (serialLink c (mapOps g s) order) :=
      ExceptList.mapM_congr _ _ s.links.fwd
        (fun e _ => serialLink_mapOps_congr c f g s order e (fun i d hd => (h i d hd).2))
    rw [hn, hl]

theorem opOrderOff_resolveOp (r : Registry) (op : Op) (b : Bool) :
    opOrderOff (resolveOp r op) b = opOrderOff (withDefDescription r op) b := by
  by_cases hcu : ∃ n s d e a, op = .custom n s d e a
  · obtain ⟨n, s, d, e, a, rfl⟩ := hcu
    rw [resolveOp, withDefDescription]
    cases lookupOp r e n with
    | none => rfl
    | some od => simp [opOrderOff, isDataflowOp, outerSig, resolveSig, resolveRow_eq_map]
  · have h : ∀ n s d e a, op ≠ .custom n s d e a := fun n s d e a he => hcu ⟨n, s, d, e, a, he⟩
    rw [resolveOp_not_custom r op h, withDefDescription_not_custom r op h]

/-- every live node's operation satisfies `OpConsistent` -/
def StoreConsistent (r : Registry) (s : Store Op μ) : Prop :=
  ∀ i d, getNode s i = .ok d → consistentOp r d.op = true

/-- **The serialised document** of the resolved HUGR is the document of the original with the
    descriptions of the resolved operations replaced by their definitions'. -/
theorem toJson_resolveStore (r : Registry) (hwf : RegistryWf r) (s : St Op) (hc : StoreConsistent r s)
    (fuel : Nat) (enc : String) :
    toJson (opsCodec fuel) enc (resolveStore r s) = toJson (opsCodec fuel) enc (mapOps (withDefDescription r) s) := by
  rw [resolveStore_eq_mapOps]
  apply toJson_mapOps_congr
  intro i d hd
  refine ⟨fun p => ?_, fun b => opOrderOff_resolveOp r d.op b⟩
  simp only [opsCodec, encOp_resolveOp r hwf d.op (hc i d hd)]

theorem resolveStore_idem (r : Registry) (s : Store Op μ) : resolveStore r (resolveStore r s) = resolveStore r s := by
  rw [resolveStore_eq_mapOps, resolveStore_eq_mapOps, mapOps_mapOps]
  exact mapOps_congr _ _ s (fun _ d _ => resolveOp_idem r d.op)

end store

end HugrVerif.Resolve
