/-
  Lemmas about extension resolution (`Resolve.lean`), used by `Props/C11.lean`.
-/
import HugrVerif.Resolve
import HugrVerif.Proofs.TysCodec
import HugrVerif.Proofs.OpsCodec

namespace HugrVerif.Resolve
open HugrVerif HugrVerif.Py HugrVerif.Ty HugrVerif.Codec

/-! ### lists -/

theorem resolveRow_eq_map (r : Registry) (ts : List Ty) : resolveRow r ts = ts.map (resolveTy r) := by
  induction ts with
  | nil => rfl
  | cons t ts ih => rw [resolveRow, ih]; rfl

theorem resolveRows_eq_map (r : Registry) (rows : List (List Ty)) : resolveRows r rows = rows.map (resolveRow r) := by
  induction rows with
  | nil => rfl
  | cons t ts ih => rw [resolveRows, ih]; rfl

theorem resolveArgs_eq_map (r : Registry) (as : List TypeArg) : resolveArgs r as = as.map (resolveArg r) := by
  induction as with
  | nil => rfl
  | cons t ts ih => rw [resolveArgs, ih]; rfl

theorem consistentRow_iff (r : Registry) (ts : List Ty) :
    consistentRow r ts = true ↔ ∀ t ∈ ts, consistentTy r t = true := by
  induction ts with
  | nil => simp [consistentRow]
  | cons t ts ih => simp [consistentRow, ih]

theorem consistentRows_iff (r : Registry) (rows : List (List Ty)) :
    consistentRows r rows = true ↔ ∀ row ∈ rows, ∀ t ∈ row, consistentTy r t = true := by
  induction rows with
  | nil => simp [consistentRows]
  | cons t ts ih => simp [consistentRows, ih, consistentRow_iff]

theorem consistentArgs_iff (r : Registry) (as : List TypeArg) :
    consistentArgs r as = true ↔ ∀ a ∈ as, consistentArg r a = true := by
  induction as with
  | nil => simp [consistentArgs]
  | cons t ts ih => simp [consistentArgs, ih]

theorem opaquesRow_mem (ts : List Ty) (x : String × String) :
    x ∈ opaquesRow ts ↔ ∃ t ∈ ts, x ∈ opaques t := by
  induction ts with
  | nil => simp [opaquesRow]
  | cons t ts ih => simp [opaquesRow, ih]

theorem opaquesRows_mem (rows : List (List Ty)) (x : String × String) :
    x ∈ opaquesRows rows ↔ ∃ row ∈ rows, ∃ t ∈ row, x ∈ opaques t := by
  induction rows with
  | nil => simp [opaquesRows]
  | cons t ts ih => simp [opaquesRows, ih, opaquesRow_mem]

theorem opaquesArgs_mem (as : List TypeArg) (x : String × String) :
    x ∈ opaquesArgs as ↔ ∃ a ∈ as, x ∈ opaquesArg a := by
  induction as with
  | nil => simp [opaquesArgs]
  | cons t ts ih => simp [opaquesArgs, ih]

/-! ### the registry -/

/-- The hypotheses on a registry: keys equal extension names; type/operation definition dict keys
    equal definition names; definitions are owned by the extension holding them. -/
structure RegistryWf (r : Registry) : Prop where
  ext_name : ∀ k e, Dict.get k r.extensions = some e → e.name = k
  type_def : ∀ k e n td, Dict.get k r.extensions = some e → Dict.get n e.types = some td →
    td.name = n ∧ td.owner = some e.name
  op_def : ∀ k e n od, Dict.get k r.extensions = some e → Dict.get n e.operations = some od →
    od.name = n ∧ od.owner = some e.name

/-- every opaque type naming a known definition stores the bound the definition computes -/
def BoundsConsistent (r : Registry) (t : Ty) : Prop := consistentTy r t = true
def ArgConsistent (r : Registry) (a : TypeArg) : Prop := consistentArg r a = true
def OpConsistent (r : Registry) (op : Op) : Prop := consistentOp r op = true

theorem allDict_get {α : Type} (p : String → α → Bool) (d : Dict String α) (h : allDict p d = true)
    (k : String) (v : α) (hg : Dict.get k d = some v) : p k v = true := by
  induction d with
  | nil => simp at hg
  | cons kv rest ih =>
    obtain ⟨a, b⟩ := kv
    simp only [allDict, Bool.and_eq_true] at h
    by_cases hak : a = k
    · subst hak
      simp [Dict.get] at hg
      subst hg
      exact h.1
    · simp [Dict.get, hak] at hg
      exact ih h.2 hg

/-- the executable check establishes the hypothesis -/
theorem registryWf_of_check (r : Registry) (h : registryWfB r = true) : RegistryWf r := by
  unfold registryWfB at h
  refine ⟨?_, ?_, ?_⟩
  · intro k e hg
    have := allDict_get _ _ h k e hg
    simp only [Bool.and_eq_true, beq_iff_eq] at this
    exact this.1.1
  · intro k e n td hg ht
    have := allDict_get _ _ h k e hg
    simp only [Bool.and_eq_true] at this
    have h2 := allDict_get _ _ this.1.2 n td ht
    simp only [Bool.and_eq_true, beq_iff_eq] at h2
    exact h2
  · intro k e n od hg ho
    have := allDict_get _ _ h k e hg
    simp only [Bool.and_eq_true] at this
    have h2 := allDict_get _ _ this.2 n od ho
    simp only [Bool.and_eq_true, beq_iff_eq] at h2
    exact h2

/-- **The lookup succeeds exactly when the registry holds an extension of that name containing a
    type definition of that name.** -/
theorem lookupType_eq_some_iff (r : Registry) (ext id : String) (td : Ext.TypeDef) :
    lookupType r ext id = some td ↔
      ∃ e, Dict.get ext r.extensions = some e ∧ Dict.get id e.types = some td := by
  unfold lookupType getExtension getType
  cases h1 : Dict.get ext r.extensions with
  | none => simp
  | some e =>
    cases h2 : Dict.get id e.types with
    | none => simp [h2]
    | some td' => simp [h2]

theorem lookupOp_eq_some_iff (r : Registry) (ext name : String) (od : Ext.OpDef) :
    lookupOp r ext name = some od ↔
      ∃ e, Dict.get ext r.extensions = some e ∧ Dict.get name e.operations = some od := by
  unfold lookupOp getExtension getOp
  cases h1 : Dict.get ext r.extensions with
  | none => simp
  | some e =>
    cases h2 : Dict.get name e.operations with
    | none => simp [h2]
    | some od' => simp [h2]

/-- the lookup fails exactly with one of the two exceptions `Opaque.resolve` catches -/
theorem lookupType_eq_none_iff (r : Registry) (ext id : String) :
    lookupType r ext id = none ↔
      getExtension r ext = .error .extension ∨ ∃ e, getExtension r ext = .ok e ∧ getType e id = .error .type := by
  unfold lookupType getExtension getType
  cases h1 : Dict.get ext r.extensions with
  | none => simp
  | some e =>
    cases h2 : Dict.get id e.types with
    | none => simp [h2]
    | some td' => simp [h2]

theorem lookupOp_eq_none_iff (r : Registry) (ext name : String) :
    lookupOp r ext name = none ↔
      getExtension r ext = .error .extension ∨ ∃ e, getExtension r ext = .ok e ∧ getOp e name = .error .operation := by
  unfold lookupOp getExtension getOp
  cases h1 : Dict.get ext r.extensions with
  | none => simp
  | some e =>
    cases h2 : Dict.get name e.operations with
    | none => simp [h2]
    | some od' => simp [h2]

/-- under `RegistryWf` a found type definition carries the names it was looked up by -/
theorem typeDefRef_names (r : Registry) (hwf : RegistryWf r) (ext id : String) (td : Ext.TypeDef)
    (h : lookupType r ext id = some td) : (typeDefRef td).ext = ext ∧ (typeDefRef td).name = id := by
  obtain ⟨e, h1, h2⟩ := (lookupType_eq_some_iff r ext id td).1 h
  have hn := hwf.ext_name ext e h1
  obtain ⟨ht, ho⟩ := hwf.type_def ext e id td h1 h2
  simp [typeDefRef, ho, hn, ht]

theorem opDefRef_names (r : Registry) (hwf : RegistryWf r) (ext name : String) (od : Ext.OpDef)
    (h : lookupOp r ext name = some od) : (opDefRef od).ext = some ext ∧ (opDefRef od).name = name := by
  obtain ⟨e, h1, h2⟩ := (lookupOp_eq_some_iff r ext name od).1 h
  have hn := hwf.ext_name ext e h1
  obtain ⟨ht, ho⟩ := hwf.op_def ext e name od h1 h2
  simp [opDefRef, ho, hn, ht]

/-! ### resolution keeps the class of everything but opaque types -/

theorem isPoly_resolveTy (r : Registry) (t : Ty) : (resolveTy r t).isPoly = t.isPoly := by
  cases t <;> simp [resolveTy, isPoly]
  split <;> rfl

/-! ### the serialised form and the bound are invariant -/

theorem encElem_resolve (r : Registry) (t : Ty) (ih : encTy (resolveTy r t) = encTy t) :
    encElem (resolveTy r t) = encElem t := by
  simp [encElem, isPoly_resolveTy, ih]

theorem encRow_resolveRow (r : Registry) (ts : List Ty) (ih : ∀ t ∈ ts, encTy (resolveTy r t) = encTy t) :
    encRow (resolveRow r ts) = encRow ts := by
  rw [encRow_eq_mapM, encRow_eq_mapM, resolveRow_eq_map]
  exact ExceptList.mapM_map_congr encElem (resolveTy r) ts (fun t ht => encElem_resolve r t (ih t ht))

theorem encRows_resolveRows (r : Registry) (rows : List (List Ty))
    (ih : ∀ row ∈ rows, ∀ t ∈ row, encTy (resolveTy r t) = encTy t) :
    encRows (resolveRows r rows) = encRows rows := by
  rw [encRows_eq_mapM, encRows_eq_mapM, resolveRows_eq_map]
  exact ExceptList.mapM_map_congr _ (resolveRow r) rows (fun row hr => by rw [encRow_resolveRow r row (ih row hr)])

theorem encArgs_resolveArgs (r : Registry) (as : List TypeArg) (ih : ∀ a ∈ as, encArg (resolveArg r a) = encArg a) :
    encArgs (resolveArgs r as) = encArgs as := by
  rw [encArgs_eq_mapM, encArgs_eq_mapM, resolveArgs_eq_map]
  exact ExceptList.mapM_map_congr encArg (resolveArg r) as ih

theorem boundRow_resolveRow (r : Registry) (ts : List Ty) (ih : ∀ t ∈ ts, bound (resolveTy r t) = bound t) :
    boundRow (resolveRow r ts) = boundRow ts := by
  rw [boundRow_eq_mapM, boundRow_eq_mapM, resolveRow_eq_map]
  exact ExceptList.mapM_map_congr bound (resolveTy r) ts ih

theorem boundRows_resolveRows (r : Registry) (rows : List (List Ty))
    (ih : ∀ row ∈ rows, ∀ t ∈ row, bound (resolveTy r t) = bound t) :
    boundRows (resolveRows r rows) = boundRows rows := by
  rw [boundRows_eq_mapM, boundRows_eq_mapM, resolveRows_eq_map,
    ExceptList.mapM_map_congr boundRow (resolveRow r) rows (fun row hr => boundRow_resolveRow r row (ih row hr))]

/-- the statement proved by induction on the expression: under consistency of the expression,
    resolution changes neither the serialised form nor the bound -/
def WireOK (r : Registry) (t : Ty) : Prop :=
  consistentTy r t = true → encTy (resolveTy r t) = encTy t ∧ bound (resolveTy r t) = bound t
def WireOKArg (r : Registry) (a : TypeArg) : Prop :=
  consistentArg r a = true → encArg (resolveArg r a) = encArg a ∧ argBound (resolveArg r a) = argBound a

theorem wire_all (r : Registry) (hwf : RegistryWf r) : (∀ t, WireOK r t) ∧ (∀ a, WireOKArg r a) := by
  refine ⟨@induct_ty (WireOK r) (WireOKArg r) ?_ ?_ ?_ ?_ ?_ ?_ ?_ ?_ ?_ ?_ ?_ ?_ ?_ ?_ ?_ ?_ ?_,
          @induct_arg (WireOK r) (WireOKArg r) ?_ ?_ ?_ ?_ ?_ ?_ ?_ ?_ ?_ ?_ ?_ ?_ ?_ ?_ ?_ ?_ ?_⟩
  all_goals first
    | -- sums
      intro rows ih hc
      rw [consistentTy, consistentRows_iff] at hc
      constructor
      · rw [resolveTy, encTy, encTy, encRows_resolveRows r rows (fun row hr t ht => (ih row hr t ht (hc row hr t ht)).1)]
      · rw [resolveTy, bound_sum, bound_sum,
          boundRows_resolveRows r rows (fun row hr t ht => (ih row hr t ht (hc row hr t ht)).2)]
    | -- function types
      intro i o rq ihi iho hc
      rw [consistentTy, Bool.and_eq_true, consistentRow_iff, consistentRow_iff] at hc
      constructor
      · rw [resolveTy, encTy, encTy, encRow_resolveRow r i (fun t ht => (ihi t ht (hc.1 t ht)).1),
          encRow_resolveRow r o (fun t ht => (iho t ht (hc.2 t ht)).1)]
      · rfl
    | -- polymorphic function types
      intro ps i o rq ihi iho hc
      rw [consistentTy, Bool.and_eq_true, consistentRow_iff, consistentRow_iff] at hc
      constructor
      · rw [resolveTy, encTy, encTy, encRow_resolveRow r i (fun t ht => (ihi t ht (hc.1 t ht)).1),
          encRow_resolveRow r o (fun t ht => (iho t ht (hc.2 t ht)).1)]
      · rfl
    | -- opaque types
      intro id b args ext ih hc
      rw [consistentTy, Bool.and_eq_true, consistentArgs_iff] at hc
      obtain ⟨hca, hcb⟩ := hc
      have hargsE : encArgs (resolveArgs r args) = encArgs args :=
        encArgs_resolveArgs r args (fun a ha => (ih a ha (hca a ha)).1)
      have hargsB : (resolveArgs r args).map argBound = args.map argBound := by
        rw [resolveArgs_eq_map, List.map_map]
        exact List.map_congr_left (fun a ha => (ih a ha (hca a ha)).2)
      rw [resolveTy]
      cases hl : lookupType r ext id with
      | none =>
        simp only []
        exact ⟨by rw [encTy, encTy, hargsE], rfl⟩
      | some td =>
        simp only [hl] at hcb ⊢
        obtain ⟨hde, hdn⟩ := typeDefRef_names r hwf ext id td hl
        have hb : bound (.extType (typeDefRef td) args) = .ok b := by
          cases hbb : bound (.extType (typeDefRef td) args) with
          | error e => rw [hbb] at hcb; simp at hcb
          | ok b' => rw [hbb] at hcb; simp at hcb; rw [hcb]
        have hb' : bound (.extType (typeDefRef td) (resolveArgs r args)) = .ok b := by
          rw [bound_extType_congr (typeDefRef td) args _ hargsB, hb]
        refine ⟨?_, ?_⟩
        · rw [encTy, encTy, hb', hargsE, hde, hdn]; rfl
        · rw [hb']; rfl
    | -- a type as an argument
      intro t ih hc
      rw [consistentArg] at hc
      obtain ⟨h1, h2⟩ := ih hc
      exact ⟨by rw [resolveArg, encArg_type_eq, encArg_type_eq, isPoly_resolveTy, h1], by simp [resolveArg, argBound, h2]⟩
    | -- a sequence of arguments
      intro es ih hc
      rw [consistentArg, consistentArgs_iff] at hc
      exact ⟨by rw [resolveArg, encArg, encArg, encArgs_resolveArgs r es (fun a ha => (ih a ha (hc a ha)).1)], rfl⟩
    | -- everything else is returned as it is
      intros
      exact ⟨rfl, rfl⟩

/-! ### the exported model term is invariant -/

theorem toModelRow_eq_mapM (ts : List Ty) : toModelRow ts = ts.mapM toModel := by
  induction ts with
  | nil => rfl
  | cons t ts ih =>
    rw [ExceptList.mapM_cons, ← ih, toModelRow]
    cases toModel t <;> simp only [bind, Except.bind, pure, Except.pure]
    cases toModelRow ts <;> rfl

theorem toModelRows_eq_mapM (rows : List (List Ty)) :
    toModelRows rows = rows.mapM (fun r => (toModelRow r).map MTerm.list) := by
  induction rows with
  | nil => rfl
  | cons t ts ih =>
    rw [ExceptList.mapM_cons, ← ih, toModelRows]
    cases toModelRow t <;> simp only [bind, Except.bind, pure, Except.pure, Except.map]
    cases toModelRows ts <;> rfl

theorem toModelArgs_eq_mapM (as : List TypeArg) : toModelArgs as = as.mapM toModelArg := by
  induction as with
  | nil => rfl
  | cons t ts ih =>
    rw [ExceptList.mapM_cons, ← ih, toModelArgs]
    cases toModelArg t <;> simp only [bind, Except.bind, pure, Except.pure]
    cases toModelArgs ts <;> rfl

theorem toModelRow_resolve (r : Registry) (ts : List Ty) (ih : ∀ t ∈ ts, toModel (resolveTy r t) = toModel t) :
    toModelRow (resolveRow r ts) = toModelRow ts := by
  rw [toModelRow_eq_mapM, toModelRow_eq_mapM, resolveRow_eq_map]
  exact ExceptList.mapM_map_congr toModel (resolveTy r) ts ih

theorem toModelRows_resolve (r : Registry) (rows : List (List Ty))
    (ih : ∀ row ∈ rows, ∀ t ∈ row, toModel (resolveTy r t) = toModel t) :
    toModelRows (resolveRows r rows) = toModelRows rows := by
  rw [toModelRows_eq_mapM, toModelRows_eq_mapM, resolveRows_eq_map]
  exact ExceptList.mapM_map_congr _ (resolveRow r) rows (fun row hr => by rw [toModelRow_resolve r row (ih row hr)])

theorem toModelArgs_resolve (r : Registry) (as : List TypeArg)
    (ih : ∀ a ∈ as, toModelArg (resolveArg r a) = toModelArg a) :
    toModelArgs (resolveArgs r as) = toModelArgs as := by
  rw [toModelArgs_eq_mapM, toModelArgs_eq_mapM, resolveArgs_eq_map]
  exact ExceptList.mapM_map_congr toModelArg (resolveArg r) as ih

theorem model_all (r : Registry) (hwf : RegistryWf r) :
    (∀ t, toModel (resolveTy r t) = toModel t) ∧ (∀ a, toModelArg (resolveArg r a) = toModelArg a) := by
  refine ⟨@induct_ty (fun t => toModel (resolveTy r t) = toModel t) (fun a => toModelArg (resolveArg r a) = toModelArg a)
            ?_ ?_ ?_ ?_ ?_ ?_ ?_ ?_ ?_ ?_ ?_ ?_ ?_ ?_ ?_ ?_ ?_,
          @induct_arg (fun t => toModel (resolveTy r t) = toModel t) (fun a => toModelArg (resolveArg r a) = toModelArg a)
            ?_ ?_ ?_ ?_ ?_ ?_ ?_ ?_ ?_ ?_ ?_ ?_ ?_ ?_ ?_ ?_ ?_⟩
  all_goals first
    | intro rows ih
      rw [resolveTy, toModel, toModel, toModelRows_resolve r rows ih]
    | intro i o rq ihi iho
      rw [resolveTy, toModel, toModel, toModelRow_resolve r i ihi, toModelRow_resolve r o iho]
    | intro id b args ext ih
      rw [resolveTy]
      cases hl : lookupType r ext id with
      | none => simp only []; rw [toModel, toModel, toModelArgs_resolve r args ih]
      | some td =>
        simp only []
        obtain ⟨hde, hdn⟩ := typeDefRef_names r hwf ext id td hl
        rw [toModel, toModel, toModelArgs_resolve r args ih, hde, hdn]
    | intro t ih
      rw [resolveArg, toModelArg, toModelArg, ih]
    | intro es ih
      rw [resolveArg, toModelArg, toModelArg, toModelArgs_resolve r es ih]
    | intros
      rfl

/-! ### resolving twice is resolving once -/

theorem idem_all (r : Registry) :
    (∀ t, resolveTy r (resolveTy r t) = resolveTy r t) ∧ (∀ a, resolveArg r (resolveArg r a) = resolveArg r a) := by
  refine ⟨@induct_ty (fun t => resolveTy r (resolveTy r t) = resolveTy r t) (fun a => resolveArg r (resolveArg r a) = resolveArg r a)
            ?_ ?_ ?_ ?_ ?_ ?_ ?_ ?_ ?_ ?_ ?_ ?_ ?_ ?_ ?_ ?_ ?_,
          @induct_arg (fun t => resolveTy r (resolveTy r t) = resolveTy r t) (fun a => resolveArg r (resolveArg r a) = resolveArg r a)
            ?_ ?_ ?_ ?_ ?_ ?_ ?_ ?_ ?_ ?_ ?_ ?_ ?_ ?_ ?_ ?_ ?_⟩
  all_goals first
    | intro rows ih
      have : resolveRows r (resolveRows r rows) = resolveRows r rows := by
        rw [resolveRows_eq_map, resolveRows_eq_map, List.map_map]
        refine List.map_congr_left (fun row hr => ?_)
        simp only [Function.comp, resolveRow_eq_map, List.map_map]
        exact List.map_congr_left (fun t ht => ih row hr t ht)
      rw [resolveTy, resolveTy, this]
    | intro i o rq ihi iho
      have h1 : resolveRow r (resolveRow r i) = resolveRow r i := by
        rw [resolveRow_eq_map, resolveRow_eq_map, List.map_map]; exact List.map_congr_left ihi
      have h2 : resolveRow r (resolveRow r o) = resolveRow r o := by
        rw [resolveRow_eq_map, resolveRow_eq_map, List.map_map]; exact List.map_congr_left iho
      rw [resolveTy, resolveTy, h1, h2]
    | intro ps i o rq ihi iho
      have h1 : resolveRow r (resolveRow r i) = resolveRow r i := by
        rw [resolveRow_eq_map, resolveRow_eq_map, List.map_map]; exact List.map_congr_left ihi
      have h2 : resolveRow r (resolveRow r o) = resolveRow r o := by
        rw [resolveRow_eq_map, resolveRow_eq_map, List.map_map]; exact List.map_congr_left iho
      rw [resolveTy, resolveTy, h1, h2]
    | intro id b args ext ih
      have h1 : resolveArgs r (resolveArgs r args) = resolveArgs r args := by
        rw [resolveArgs_eq_map, resolveArgs_eq_map, List.map_map]; exact List.map_congr_left ih
      rw [resolveTy]
      cases hl : lookupType r ext id with
      | none => simp only []; rw [resolveTy, hl]; simp only []; rw [h1]
      | some td => simp only []; rw [resolveTy]
    | intro t ih
      rw [resolveArg, resolveArg, ih]
    | intro es ih
      have h1 : resolveArgs r (resolveArgs r es) = resolveArgs r es := by
        rw [resolveArgs_eq_map, resolveArgs_eq_map, List.map_map]; exact List.map_congr_left ih
      rw [resolveArg, resolveArg, h1]
    | intros
      rfl

end HugrVerif.Resolve
