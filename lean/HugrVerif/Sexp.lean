/-
  S-expressions: the wire syntax of the line protocol between the Python harness and the
  Lean driver.  Atoms are bare tokens or double-quoted strings (escapes: \" \\ \n \t \r).
  Import-free.
-/
namespace HugrVerif

inductive Sexp where
  | atom (s : String)       -- bare token
  | str (s : String)        -- quoted string
  | list (xs : List Sexp)
deriving Repr, Inhabited

namespace Sexp

def escape (s : String) : String :=
  s.foldl (fun acc c =>
    match c with
    | '"' => acc ++ "\\\""
    | '\\' => acc ++ "\\\\"
    | '\n' => acc ++ "\\n"
    | '\t' => acc ++ "\\t"
    | '\r' => acc ++ "\\r"
    | c => acc.push c) ""

mutual
  partial def toString : Sexp → String
    | atom s => s
    | str s => "\"" ++ escape s ++ "\""
    | list xs => "(" ++ " ".intercalate (xs.map toString) ++ ")"
end

instance : ToString Sexp := ⟨Sexp.toString⟩

/-- Tokeniser + parser over a character list. -/
partial def parseString (cs : List Char) (acc : String) : Option (String × List Char) :=
  match cs with
  | [] => none
  | '"' :: rest => some (acc, rest)
  | '\\' :: 'n' :: rest => parseString rest (acc.push '\n')
  | '\\' :: 't' :: rest => parseString rest (acc.push '\t')
  | '\\' :: 'r' :: rest => parseString rest (acc.push '\r')
  | '\\' :: c :: rest => parseString rest (acc.push c)
  | c :: rest => parseString rest (acc.push c)

partial def parseAtom (cs : List Char) (acc : String) : String × List Char :=
  match cs with
  | [] => (acc, [])
  | c :: rest =>
    if c == ' ' || c == '(' || c == ')' || c == '"' then (acc, cs)
    else parseAtom rest (acc.push c)

mutual
  partial def parseOne (cs : List Char) : Option (Sexp × List Char) :=
    match cs with
    | [] => none
    | ' ' :: rest => parseOne rest
    | '(' :: rest => parseList rest []
    | ')' :: _ => none
    | '"' :: rest => (parseString rest "").map (fun (s, r) => (str s, r))
    | _ => let (a, r) := parseAtom cs ""; some (atom a, r)
  partial def parseList (cs : List Char) (acc : List Sexp) : Option (Sexp × List Char) :=
    match cs with
    | [] => none
    | ' ' :: rest => parseList rest acc
    | ')' :: rest => some (list acc.reverse, rest)
    | _ => match parseOne cs with
      | none => none
      | some (x, rest) => parseList rest (x :: acc)
end

def parse (s : String) : Option Sexp :=
  match parseOne s.toList with
  | some (x, rest) => if rest.all (· == ' ') then some x else none
  | none => none

def ofNat (n : Nat) : Sexp := atom (ToString.toString n)
def ofInt (n : Int) : Sexp := atom (ToString.toString n)
def ofBool (b : Bool) : Sexp := atom (if b then "true" else "false")

def toNat? : Sexp → Option Nat
  | atom s => s.toNat?
  | _ => none
def toInt? : Sexp → Option Int
  | atom s => s.toInt?
  | _ => none
/-- Text of an atom or a quoted string. -/
def text? : Sexp → Option String
  | atom s => some s
  | str s => some s
  | _ => none

end Sexp
end HugrVerif
