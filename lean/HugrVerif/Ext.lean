/-
  Extension definitions — `hugr/ext.py` and `hugr/_serialization/extension.py` (property C10).
  Import-free apart from the shared model layers (`Json`, `Tys`, `Val`, `Py.Dict`).

  * `Extension` (`ext.py:269-284`): name, version (carried as its semver text: parsing/printing is
    the `semver` package's), `runtime_reqs` — a Python `set`, modelled as a list that is only ever
    compared up to membership —, and the three `dict`s `types`, `values`, `operations`
    (`Py.Dict`: insertion ordered, update in place).
  * `TypeDef`, `OpDef`, `ExtValue` carry `owner`, the `_extension` back reference, identified by the
    name of the owning extension (`none` = not attached: `get_extension()` raises
    `NoParentExtension`).  The model has value semantics: a definition object is not shared
    between two extensions (in Python adding the *same object* to a second extension re-owns it).
  * `OpDef.lower_funcs` is **not modelled**: the property quantifies over extensions without
    lowering functions, so the field is always empty — it is emitted as `[]` by `encOpDef`, and a
    document with a non-empty `lower_funcs` is outside the fragment (`Err.lowerings`).
  * Requirement lists that go through a Python `set` (`with_runtime_reqs`, `tys.py:575-581`:
    `[*set(self.runtime_reqs).union(runtime_reqs)]`; `Extension.runtime_reqs`) come out in hash order
    (ledger note F29).  The model is parametrised by `SetOrd`, *any* way of enumerating the union
    of two lists without repetition; every theorem holds for all of them, the driver runs
    `SetOrd.std`, and observations sort these lists.
-/
import HugrVerif.Val
import HugrVerif.TysEq
import HugrVerif.Py.Dict

namespace HugrVerif.Ext
open HugrVerif HugrVerif.Codec HugrVerif.Py

/-! ### enumeration of Python sets -/

/-- `[*set(a).union(b)]`: some enumeration, without repetition, of the members of `a` and `b`. -/
structure SetOrd where
  union : List String → List String → List String
  mem_union : ∀ a b x, x ∈ union a b ↔ x ∈ a ∨ x ∈ b
  nodup_union : ∀ a b, (union a b).Nodup

/-- keeps the last occurrence of every element -/
def dedup : List String → List String
  | [] => []
  | x :: xs => if x ∈ xs then dedup xs else x :: dedup xs

theorem mem_dedup (l : List String) (x : String) : x ∈ dedup l ↔ x ∈ l := by
  induction l with
  | nil => simp [dedup]
  | cons y ys ih =>
    unfold dedup
    by_cases h : y ∈ ys
    · simp only [h, if_true, ih, List.mem_cons]
      constructor
      · exact Or.inr
      · rintro (rfl | h') <;> assumption
    · simp only [h, if_false, List.mem_cons, ih]

theorem nodup_dedup (l : List String) : (dedup l).Nodup := by
  induction l with
  | nil => simp [dedup]
  | cons y ys ih =>
    unfold dedup
    by_cases h : y ∈ ys
    · simpa [h] using ih
    · rw [if_neg h]
      exact List.nodup_cons.2 ⟨by rwa [mem_dedup], ih⟩

/-- the enumeration the driver runs -/
def SetOrd.std : SetOrd where
  union a b := dedup (a ++ b)
  mem_union a b x := by rw [mem_dedup, List.mem_append]
  nodup_union a b := nodup_dedup _

/-! ### data -/

/-- `tys.PolyFuncType` (`params`, `body = FunctionType(input, output, runtime_reqs)`). -/
structure Poly where
  params : List TypeParam
  inp : List Ty
  out : List Ty
  reqs : List String
deriving Inhabited

def Poly.toTy (p : Poly) : Ty := .poly p.params p.inp p.out p.reqs

/-- `PolyFuncType([], ft)`: what `OpDefSig.__init__` makes of a plain `FunctionType`. -/
def Poly.ofFn (inp out : List Ty) (reqs : List String) : Poly := ⟨[], inp, out, reqs⟩

/-- `PolyFuncType.with_runtime_reqs` (`tys.py:617-624`, through `FunctionType.with_runtime_reqs`). -/
def Poly.withReqs (so : SetOrd) (p : Poly) (new : List String) : Poly :=
  { p with reqs := so.union p.reqs new }

structure TypeDef where
  owner : Option String
  name : String
  description : String
  params : List TypeParam
  bound : DefBound
deriving Inhabited

inductive Err where
  | noParent            -- `NoParentExtension` (`get_extension()` of an unattached definition)
  | enc (e : EncErr)    -- serialising a type / value raised
  | dec (e : DecErr)    -- pydantic `ValidationError` (or the fuel of the decoders ran out)
  | valueError          -- `OpDefSig(None, binary=False)`
  | assertion           -- `assert k == t.name` in `Extension.deserialize`
  | lowerings           -- non-empty `lower_funcs`: outside the modelled fragment
deriving Repr, DecidableEq

/-- `OpDefSig` (`ext.py:161-190`). -/
structure OpDefSig where
  poly : Option Poly
  binary : Bool
deriving Inhabited

/-- `OpDefSig.__init__`: `ValueError` without a signature unless `binary`. -/
def OpDefSig.new (poly : Option Poly) (binary : Bool) : Except Err OpDefSig :=
  match poly, binary with
  | none, false => throw .valueError
  | p, b => pure ⟨p, b⟩

structure OpDef where
  owner : Option String
  name : String
  sig : OpDefSig
  description : String
  misc : List (String × Json)
deriving Inhabited

structure ExtValue where
  owner : Option String
  name : String
  val : Value
deriving Inhabited

structure Extension where
  name : String
  version : String
  runtimeReqs : List String
  types : Dict String TypeDef
  values : Dict String ExtValue
  operations : Dict String OpDef
deriving Inhabited

/-- `Extension(name, version, runtime_reqs)` -/
def Extension.new (name version : String) (reqs : List String) : Extension :=
  { name, version, runtimeReqs := reqs, types := [], values := [], operations := [] }

/-! ### `add_*` (`ext.py:318-361`) and `register_op` (`ext.py:417-452`) -/

/-- `add_op_def`: when the definition has a `poly_func` its requirements get the owning extension
    (`with_runtime_reqs([self.name])`); a binary signature without `poly_func` is left alone;
    then the owner is set and the definition stored under its name. -/
def addOpDef (so : SetOrd) (e : Extension) (od : OpDef) : Extension × OpDef :=
  let sig : OpDefSig := match od.sig.poly with
    | some p => { od.sig with poly := some (p.withReqs so [e.name]) }
    | none => od.sig
  let od' : OpDef := { od with sig := sig, owner := some e.name }
  ({ e with operations := Dict.set od.name od' e.operations }, od')

def addTypeDef (e : Extension) (td : TypeDef) : Extension × TypeDef :=
  let td' : TypeDef := { td with owner := some e.name }
  ({ e with types := Dict.set td.name td' e.types }, td')

def addExtensionValue (e : Extension) (v : ExtValue) : Extension × ExtValue :=
  let v' : ExtValue := { v with owner := some e.name }
  ({ e with values := Dict.set v.name v' e.values }, v')

/-- The `signature` argument of `register_op`: an `OpDefSig` is taken as it is, anything else goes
    through `OpDefSig(signature, binary = signature is None)` (which therefore never raises). -/
def regSig : Option Poly ⊕ OpDefSig → OpDefSig
  | .inr s => s
  | .inl p => ⟨p, p.isNone⟩

/-- `register_op(name, signature, description, misc)(cls)`.  As the code is written the description
    is the class docstring when no `description` argument is given and the class has one, and the
    empty string otherwise (a given `description` is not used). -/
def registerOp (so : SetOrd) (e : Extension) (clsName : String) (clsDoc : Option String)
    (name : Option String) (sig : Option Poly ⊕ OpDefSig) (description : Option String)
    (misc : Option (List (String × Json))) : Extension × OpDef :=
  let newDescription := match description, clsDoc with
    | none, some d => if d = "" then "" else d
    | _, _ => ""
  let newName := match name with | none => clsName | some n => n
  let misc' := match misc with | none => [] | some m => m     -- `misc or {}`
  addOpDef so e { owner := none, name := newName, sig := regSig sig, description := newDescription, misc := misc' }

/-! ### serialisation: `_to_serial` + `model_dump_json` -/

def encDefBound : DefBound → Json
  | .explicit b => .obj [("b", .str "Explicit"), ("bound", encBound b)]
  | .fromParams is => .obj [("b", .str "FromParams"), ("indices", .arr (is.map .int))]

def encTypeDef (td : TypeDef) : Except Err Json :=
  match td.owner with
  | none => throw .noParent
  | some o => pure (.obj [("extension", .str o), ("name", .str td.name), ("description", .str td.description),
      ("params", .arr (encParams td.params)), ("bound", encDefBound td.bound)])

/-- `self.signature.poly_func._to_serial() if self.signature.poly_func else None` -/
def encSig : Option Poly → Except Err Json
  | none => pure .null
  | some p => match encTy p.toTy with
    | .ok j => pure j
    | .error e => throw (.enc e)

def encOpDef (od : OpDef) : Except Err Json :=
  match od.owner with
  | none => throw .noParent
  | some o =>
    match encSig od.sig.poly with
    | .error e => throw e
    | .ok s => pure (.obj [("extension", .str o), ("name", .str od.name), ("description", .str od.description),
        ("misc", .obj od.misc), ("signature", s), ("binary", .bool od.sig.binary), ("lower_funcs", .arr [])])

def encExtValue (v : ExtValue) : Except Err Json :=
  match v.owner with
  | none => throw .noParent
  | some o =>
    match encVal v.val with
    | .error e => throw (.enc e)
    | .ok j => pure (.obj [("extension", .str o), ("name", .str v.name), ("typed_value", j)])

/-- `{k: v._to_serial() for k, v in d.items()}` -/
def encEntries {α : Type} (f : α → Except Err Json) : List (String × α) → Except Err (List (String × Json))
  | [] => pure []
  | (k, v) :: rest =>
    match f v with
    | .error e => throw e
    | .ok j =>
      match encEntries f rest with
      | .error e => throw e
      | .ok js => pure ((k, j) :: js)

/-- `Extension._to_serial` (`ext.py:292-300`) + `model_dump_json`; field order of the pydantic model. -/
def encExt (e : Extension) : Except Err Json :=
  match encEntries encTypeDef e.types with
  | .error err => throw err
  | .ok ts =>
    match encEntries encExtValue e.values with
    | .error err => throw err
    | .ok vs =>
      match encEntries encOpDef e.operations with
      | .error err => throw err
      | .ok os => pure (.obj [("version", .str e.version), ("name", .str e.name),
          ("runtime_reqs", encStrs e.runtimeReqs), ("types", .obj ts), ("values", .obj vs),
          ("operations", .obj os)])

/-! ### loading: pydantic validation, then `deserialize` (`_serialization/extension.py:27-153`) -/

def liftD {α : Type} : Except DecErr α → Except Err α
  | .ok a => .ok a
  | .error e => .error (.dec e)

/-- `TypeDefBound`: union discriminated by `b` (the tag is required). -/
def decDefBound (j : Json) : Except DecErr DefBound := do
  let kvs ← asObj j
  match ← asStr (← req "b" kvs) with
  | "Explicit" => do pure (.explicit (← decBound (← req "bound" kvs)))
  | "FromParams" => do pure (.fromParams (← (← asArr (← req "indices" kvs)).mapM asInt))
  | _ => throw .validation

/-- serial `TypeDef` validated and turned into `ext.TypeDef(...)` (not yet attached). -/
def decTypeDef (fuel : Nat) (j : Json) : Except DecErr TypeDef := do
  let kvs ← asObj j
  let _ ← asStr (← req "extension" kvs)
  let name ← asStr (← req "name" kvs)
  let description ← asStr (← req "description" kvs)
  let params ← (← asArr (← req "params" kvs)).mapM (decParam fuel)
  let bound ← decDefBound (← req "bound" kvs)
  pure { owner := none, name, description, params, bound }

def decExtValue (fnSig : Json → Except DecErr (List Ty × List Ty × List String)) (fuel : Nat) (j : Json) :
    Except DecErr ExtValue := do
  let kvs ← asObj j
  let _ ← asStr (← req "extension" kvs)
  let name ← asStr (← req "name" kvs)
  let v ← decVal fnSig fuel (← req "typed_value" kvs)
  pure { owner := none, name, val := v }

/-- `PolyFuncType` field -/
def decPolyP (fuel : Nat) (j : Json) : Except DecErr Poly := do
  match ← decPoly fuel j with
  | .poly ps i o r => pure ⟨ps, i, o, r⟩
  | _ => throw .validation

/-- the validated serial `OpDef` (`_serialization/extension.py:92-101`).  Validation is modelled on
    documents of the right JSON kinds; pydantic's lax-mode coercions (`"binary": "yes"` is read as
    `true`) are outside the modelled fragment. -/
structure RawOpDef where
  name : String
  description : String
  misc : Option (List (String × Json))     -- `dict[str, Any] | None = None`
  signature : Option Poly                   -- `PolyFuncType | None = None`
  binary : Bool                             -- `bool = False`
deriving Inhabited

def decOpDef (fuel : Nat) (j : Json) : Except Err RawOpDef := do
  let kvs ← liftD (asObj j)
  let _ ← liftD (do asStr (← req "extension" kvs))
  let name ← liftD (do asStr (← req "name" kvs))
  let description ← liftD (do asStr (← req "description" kvs))
  let misc ← match field "misc" kvs with
    | none => pure none
    | some .null => pure none
    | some (.obj m) => pure (some m)
    | some _ => throw (.dec .validation)
  let signature ← match field "signature" kvs with
    | none => pure none
    | some .null => pure none
    | some s => do pure (some (← liftD (decPolyP fuel s)))
  let binary ← match field "binary" kvs with
    | none => pure false
    | some (.bool b) => pure b
    | some _ => throw (.dec .validation)
  match field "lower_funcs" kvs with
  | none => pure ()
  | some (.arr []) => pure ()
  | some (.arr _) => throw .lowerings
  | some _ => throw (.dec .validation)
  pure { name, description, misc, signature, binary }

/-- a `dict[str, X]` field: every member validated in order -/
def decEntries {α : Type} (f : Json → Except Err α) : List (String × Json) → Except Err (List (String × α))
  | [] => pure []
  | (k, j) :: rest =>
    match f j with
    | .error e => throw e
    | .ok a =>
      match decEntries f rest with
      | .error e => throw e
      | .ok as => pure ((k, a) :: as)

/-- serial `OpDef.deserialize(extension)`: the decoded signature gets the extension as a requirement,
    `OpDefSig(...)` may raise, then `extension.add_op_def(...)` (which adds the requirement again). -/
def deserOpDef (so : SetOrd) (e : Extension) (r : RawOpDef) : Except Err (Extension × OpDef) :=
  match OpDefSig.new (r.signature.map (fun p => p.withReqs so [e.name])) r.binary with
  | .error err => throw err
  | .ok sig =>
    let misc := match r.misc with | none => [] | some m => m       -- `self.misc or {}`
    pure (addOpDef so e { owner := none, name := r.name, sig, description := r.description, misc })

/-- `for k, t in self.types.items(): assert k == t.name; e.add_type_def(t.deserialize(e))` —
    `t.deserialize(e)` already calls `e.add_type_def`, the result is added a second time. -/
def loadTypes : Extension → List (String × TypeDef) → Except Err Extension
  | e, [] => pure e
  | e, (k, t) :: rest =>
    if k ≠ t.name then throw .assertion
    else
      let (e1, td) := addTypeDef e t
      let (e2, _) := addTypeDef e1 td
      loadTypes e2 rest

/-- `for k, o in self.operations.items(): assert k == o.name; e.add_op_def(o.deserialize(e))` -/
def loadOps (so : SetOrd) : Extension → List (String × RawOpDef) → Except Err Extension
  | e, [] => pure e
  | e, (k, o) :: rest =>
    if k ≠ o.name then throw .assertion
    else
      match deserOpDef so e o with
      | .error err => throw err
      | .ok (e1, od) =>
        let (e2, _) := addOpDef so e1 od
        loadOps so e2 rest

/-- `for k, v in self.values.items(): assert k == v.name; e.add_extension_value(v.deserialize(e))` -/
def loadValues : Extension → List (String × ExtValue) → Except Err Extension
  | e, [] => pure e
  | e, (k, v) :: rest =>
    if k ≠ v.name then throw .assertion
    else
      let (e1, v1) := addExtensionValue e v
      let (e2, _) := addExtensionValue e1 v1
      loadValues e2 rest

/-- the validated serial `Extension` -/
structure RawExt where
  version : String
  name : String
  runtimeReqs : List String
  types : List (String × TypeDef)
  values : List (String × ExtValue)
  operations : List (String × RawOpDef)

/-- `ext_s.Extension.model_validate_json`: all six fields are required; members of unknown name are
    ignored.  `version` is accepted as any string (see the header). -/
def validate (fnSig : Json → Except DecErr (List Ty × List Ty × List String)) (fuel : Nat) (j : Json) :
    Except Err RawExt := do
  let kvs ← liftD (asObj j)
  let version ← liftD (do asStr (← req "version" kvs))
  let name ← liftD (do asStr (← req "name" kvs))
  let reqs ← liftD (do decStrs (← req "runtime_reqs" kvs))
  let types ← decEntries (fun j => liftD (decTypeDef fuel j)) (← liftD (do asObj (← req "types" kvs)))
  let values ← decEntries (fun j => liftD (decExtValue fnSig fuel j)) (← liftD (do asObj (← req "values" kvs)))
  let operations ← decEntries (decOpDef fuel) (← liftD (do asObj (← req "operations" kvs)))
  pure { version, name, runtimeReqs := reqs, types, values, operations }

/-- serial `Extension.deserialize` (`_serialization/extension.py:134-153`): types, then operations,
    then values.  `runtime_reqs` was validated into a `set`: some enumeration of its members. -/
def deserialize (so : SetOrd) (r : RawExt) : Except Err Extension :=
  let e0 := Extension.new r.name r.version (so.union r.runtimeReqs [])
  match loadTypes e0 r.types with
  | .error err => throw err
  | .ok e1 =>
    match loadOps so e1 r.operations with
    | .error err => throw err
    | .ok e2 => loadValues e2 r.values

/-- `Extension.from_json` / `_load_extension` -/
def decExt (so : SetOrd) (fnSig : Json → Except DecErr (List Ty × List Ty × List String)) (fuel : Nat)
    (j : Json) : Except Err Extension :=
  match validate fnSig fuel j with
  | .error err => throw err
  | .ok r => deserialize so r

/-! ### extension documents up to the order of the set-typed requirement lists

  The two places of an extension document that hold a Python `set` written out as a list are
  `runtime_reqs` of the extension and `operations.<name>.signature.body.runtime_reqs`
  (built by `with_runtime_reqs`).  `canonDoc` sorts these two (removing repetitions) and leaves
  every other part of the document — including requirement lists of function types nested inside
  a signature — untouched.  "The same document" for C10 is `canonDoc j = canonDoc j'`. -/

def insertSorted (x : String) : List String → List String
  | [] => [x]
  | y :: ys => if x < y then x :: y :: ys else if x = y then y :: ys else y :: insertSorted x ys

/-- sorted, without repetition -/
def sortDedup (l : List String) : List String := l.foldr insertSorted []

def strsOf? : List Json → Option (List String)
  | [] => some []
  | .str s :: rest => (strsOf? rest).map (s :: ·)
  | _ :: _ => none

/-- an array of strings read as a set -/
def sortSet : Json → Json
  | .arr xs => match strsOf? xs with
    | some ss => encStrs (sortDedup ss)
    | none => .arr xs
  | j => j

/-- apply `f` to the member `k` of an object -/
def mapKey (k : String) (f : Json → Json) : Json → Json
  | .obj kvs => .obj (kvs.map fun kv => if kv.1 = k then (kv.1, f kv.2) else kv)
  | j => j

/-- apply `f` to every member of an object -/
def mapVals (f : Json → Json) : Json → Json
  | .obj kvs => .obj (kvs.map fun kv => (kv.1, f kv.2))
  | j => j

def canonOpDoc : Json → Json :=
  mapKey "signature" (mapKey "body" (mapKey "runtime_reqs" sortSet))

def canonDoc (j : Json) : Json :=
  mapKey "operations" (mapVals canonOpDoc) (mapKey "runtime_reqs" sortSet j)

/-! ### fitting type arguments to declared parameters
    (`check_type_arg`, hugr-core/src/types/type_param.rs:407-458) -/

/-- `TypeBound::contains` (hugr-core/src/types.rs:149-152) -/
def boundContains (b o : Bound) : Bool := b == .any || o == .copyable

/-- `UpperBound::valid_value` (type_param.rs:30-36); a negative Python `n` is no `u64`. -/
def validNat (ub : Option Int) (n : Int) : Bool :=
  0 ≤ n && (n == 0 || match ub with | none => true | some b => n < b)

/-- `UpperBound::contains` (type_param.rs:37-43) -/
def ubContains : Option Int → Option Int → Bool
  | none, _ => true
  | some b1, some b2 => b2 ≤ b1
  | some _, none => false

mutual
  /-- `TypeParam::contains` (type_param.rs:123-137) -/
  def paramContains : TypeParam → TypeParam → Bool
    | .type b1, .type b2 => boundContains b1 b2
    | .boundedNat u1, .boundedNat u2 => ubContains u1 u2
    | .string, .string => true
    | .list p1, .list p2 => paramContains p1 p2
    | .tuple ps1, .tuple ps2 => paramsContain ps1 ps2
    | .extensions, .extensions => true
    | _, _ => false
  def paramsContain : List TypeParam → List TypeParam → Bool
    | [], [] => true
    | p :: ps, q :: qs => paramContains p q && paramsContain ps qs
    | _, _ => false
end

/-- `bound_if_row_var` (type_param.rs:396-403) of a variable argument's declaration -/
def rowVarBound : TypeParam → Option Bound
  | .list (.type b) => some b
  | _ => none

mutual
  /-- `check_type_arg(arg, param).is_ok()`.  A type argument fits `Type{b}` when `b` contains its
      least upper bound; a Python type whose `type_bound()` raises fits only `Type{Any}`. -/
  def argFits : TypeArg → TypeParam → Bool
    | .variable _ decl, p => paramContains p decl
    | .type t, .type b =>
      match Ty.bound t with
      | .ok tb => boundContains b tb
      | .error _ => b == .any
    | .sequence es, .list p => elemsFit es p
    | .sequence es, .tuple ps => zipFit es ps
    | .boundedNat n, .boundedNat ub => validNat ub n
    | .string _, .string => true
    | .extensions _, .extensions => true
    | _, _ => false
  /-- elements of a sequence against a `List` parameter: a row variable also fits a list of types -/
  def elemsFit : List TypeArg → TypeParam → Bool
    | [], _ => true
    | a :: as, p =>
      (match a, p with
        | .variable _ decl, .type pb =>
          (match rowVarBound decl with
            | some ab => boundContains pb ab
            | none => false) || argFits a p
        | _, _ => argFits a p) && elemsFit as p
  /-- `check_type_args` / the `Tuple` case: same length, pointwise -/
  def zipFit : List TypeArg → List TypeParam → Bool
    | [], [] => true
    | a :: as, p :: ps => argFits a p && zipFit as ps
    | _, _ => false
end

/-- `check_type_args(args, params).is_ok()` (type_param.rs:461-469) -/
def argsFit (args : List TypeArg) (params : List TypeParam) : Bool := zipFit args params

/-! ### the typed helpers of `hugr.std` (the arguments they build) -/

/-- which definition a helper instantiates, and with which arguments -/
structure HelperUse where
  ext : String        -- `Extension.name` of the extension the module loads
  isOp : Bool         -- operation definition (else type definition)
  defName : String
  args : List TypeArg

/-- `int_t(width)` (`std/int.py:25-41`): `INT_T_DEF.instantiate([BoundedNatArg(n=width)])` -/
def intT (w : Int) : HelperUse := ⟨"arithmetic.int.types", false, "int", [.boundedNat w]⟩
/-- `FLOAT_T` (`std/float.py:13`) -/
def floatT : HelperUse := ⟨"arithmetic.float.types", false, "float64", []⟩
/-- `STRING_T` (`std/prelude.py:14-16`) -/
def stringT : HelperUse := ⟨"prelude", false, "string", []⟩
/-- `Array(ty, size)` (`std/collections/array.py:16-37`): `args = [size, TypeTypeArg(ty)]` -/
def arrayT (ty : Ty) (size : Int) : HelperUse := ⟨"collections.array", false, "array", [.boundedNat size, .type ty]⟩
/-- `List(ty)` (`std/collections/list.py:15-23`) -/
def listT (ty : Ty) : HelperUse := ⟨"collections.list", false, "List", [.type ty]⟩
/-- `StaticArray(ty)` (`std/collections/static_array.py:14-27`); the constructor raises `ValueError`
    unless `ty.type_bound()` is `Copyable`. -/
def staticArrayT (ty : Ty) : HelperUse := ⟨"collections.static_array", false, "static_array", [.type ty]⟩
/-- `DivMod` / `_DivModDef(width)` (`std/int.py:80-106`): `idivmod_u` with `[BoundedNatArg(width)]` -/
def divMod (w : Int) : HelperUse := ⟨"arithmetic.int", true, "idivmod_u", [.boundedNat w]⟩
/-- `Not` (`std/logic.py:19-30`): no type arguments -/
def notOp : HelperUse := ⟨"logic", true, "Not", []⟩

/-- one translated definition: its name and declared parameters -/
structure DefSig where
  name : String
  params : List TypeParam

/-- one translated extension document: name, type definitions, operation definitions
    (`params` of a binary-computed signature without type scheme: `none`) -/
structure ExtSig where
  name : String
  types : List DefSig
  ops : List (String × Option (List TypeParam))

def findExt (tbl : List ExtSig) (n : String) : Option ExtSig := tbl.find? (fun e => e.name == n)

/-- the declared parameters of the definition a helper names, in the translated documents -/
def HelperUse.params? (tbl : List ExtSig) (h : HelperUse) : Option (List TypeParam) :=
  match findExt tbl h.ext with
  | none => none
  | some e =>
    if h.isOp then
      match e.ops.find? (fun o => o.1 == h.defName) with
      | some (_, some ps) => some ps
      | _ => none
    else (e.types.find? (fun d => d.name == h.defName)).map (·.params)

/-- the helper denotes a definition that exists, and its arguments fit the declared parameters -/
def HelperUse.matches (tbl : List ExtSig) (h : HelperUse) : Bool :=
  match h.params? tbl with
  | none => false
  | some ps => argsFit h.args ps

/-! ### loading a translated document and reading off its definitions -/

/-- names and declared parameters of the definitions an extension holds -/
def sigOfExt (e : Extension) : ExtSig :=
  { name := e.name,
    types := e.types.map fun kt => ⟨kt.2.name, kt.2.params⟩,
    ops := e.operations.map fun ko => (ko.2.name, ko.2.sig.poly.map (·.params)) }

def optParamsBeq : Option (List TypeParam) → Option (List TypeParam) → Bool
  | none, none => true
  | some a, some b => TypeParam.beqList a b
  | _, _ => false

def typesBeq : List DefSig → List DefSig → Bool
  | [], [] => true
  | a :: as, b :: bs => a.name == b.name && TypeParam.beqList a.params b.params && typesBeq as bs
  | _, _ => false

def opsBeq : List (String × Option (List TypeParam)) → List (String × Option (List TypeParam)) → Bool
  | [], [] => true
  | a :: as, b :: bs => a.1 == b.1 && optParamsBeq a.2 b.2 && opsBeq as bs
  | _, _ => false

def ExtSig.beq (a b : ExtSig) : Bool := a.name == b.name && typesBeq a.types b.types && opsBeq a.ops b.ops

/-- the standard extension documents hold no function constants -/
def noFnSig : Json → Except DecErr (List Ty × List Ty × List String) := fun _ => .error .validation

/-- `_load_extension` succeeds on the document, and the loaded extension holds exactly the
    definitions (names, declared parameters) the table lists under the extension's name -/
def loadsFrom (tbl : List ExtSig) (fuel : Nat) (doc : Json) : Bool :=
  match decExt SetOrd.std noFnSig fuel doc with
  | .ok e =>
    match findExt tbl e.name with
    | some s => (sigOfExt e).beq s
    | none => false
  | .error _ => false

end HugrVerif.Ext
