/-
  L3: serialisation of a HUGR — `Hugr._to_serial` / `_from_serial` / `to_json` / `load_json`
  (hugr/hugr/base.py, hugr/_serialization/serial_hugr.py), parametric in the operation codec.
  Import-free apart from Store / Json.

  Metadata is a Python dict of JSON values: `Meta = List (String × Json)` (insertion order).
-/
import HugrVerif.Store
import HugrVerif.Json

namespace HugrVerif
open Py

namespace Serial

abbrev Meta := List (String × Json)

inductive Err where
  | store (e : Store.Err)        -- KeyError / ValueError / ParentBeforeChild from the store
  | op (cls : String)            -- raised by the operation layer (IncompleteOp, ValidationError, …)
  | validation                   -- pydantic ValidationError on the document
  | assertion                    -- `assert` in `_from_serial` / `_constrain_offset`
deriving Repr, DecidableEq

def Err.name : Err → String
  | .store .keyError => "KeyError"
  | .store .valueError => "ValueError"
  | .store .parentBeforeChild => "ParentBeforeChild"
  | .op c => c
  | .validation => "ValidationError"
  | .assertion => "AssertionError"

/-- What the serialiser needs to know about operations. -/
structure OpCodec (Ω : Type) where
  /-- `op._to_serial(parent)` + model dump -/
  enc : Ω → Nat → Except String Json
  /-- pydantic validation of one node + `deserialize()`: the operation and its `parent` field -/
  dec : Json → Except String (Ω × Int)
  /-- `Hugr._order_port_offset(node, direction)` (`true` = incoming) -/
  orderOff : Ω → Bool → Except String (Option Nat)

variable {Ω : Type}

def liftS {α : Type} : Except Store.Err α → Except Err α
  | .ok a => .ok a
  | .error e => .error (.store e)

def liftO {α : Type} : Except String α → Except Err α
  | .ok a => .ok a
  | .error e => .error (.op e)

abbrev St (Ω : Type) := Store Ω Meta

/-- position of `i` in `l` (the `rekey` dict of `_to_serial`) -/
def indexOf (i : Nat) : List Nat → Nat → Option Nat
  | [], _ => none
  | x :: xs, k => if x = i then some k else indexOf i xs (k + 1)

/-- `_constrain_offset(p)`; `incoming` tells the direction. -/
def constrainOffset (c : OpCodec Ω) (s : St Ω) (node : Nat) (off : Int) (incoming : Bool) : Except Err Int :=
  if off < 0 then
    if off ≠ -1 then .error .assertion
    else
      match liftS (Store.getNode s node) with
      | .error e => .error e
      | .ok d =>
        match liftO (c.orderOff d.op incoming) with
        | .error e => .error e
        | .ok (some k) => .ok k
        | .ok none => .ok (if incoming then d.numInps else d.numOuts)
  else .ok off

structure Edge where
  src : Nat
  srcOff : Option Int
  dst : Nat
  dstOff : Option Int
deriving Repr, DecidableEq

/-- The content of a `SerialHugr` (nodes already as JSON, as pydantic holds validated models). -/
structure Doc where
  nodes : List Json
  edges : List Edge
  metadata : Option (List (Option Meta))
  encoder : Option String

/-- `rekey[idx]` -/
def rekey (order : List Nat) (i : Nat) : Except Err Nat :=
  match indexOf i order 0 with
  | some k => .ok k
  | none => .error (.store .keyError)

/-- `_serialize_node(idx, node)` together with the node's metadata entry -/
def serialNode (c : OpCodec Ω) (s : St Ω) (order : List Nat) (i : Nat) : Except Err (Json × Option Meta) :=
  match liftS (Store.getNode s i) with
  | .error e => .error e
  | .ok d =>
    match rekey order (d.parent.getD i) with
    | .error e => .error e
    | .ok p =>
      match liftO (c.enc d.op p) with
      | .error e => .error e
      | .ok j => .ok (j, if d.md.isEmpty then none else some d.md)

/-- `_serialize_link(link)` -/
def serialLink (c : OpCodec Ω) (s : St Ω) (order : List Nat) (e : SubPort × SubPort) : Except Err Edge :=
  match constrainOffset c s e.1.node e.1.offset false with
  | .error er => .error er
  | .ok so =>
    match constrainOffset c s e.2.node e.2.offset true with
    | .error er => .error er
    | .ok d_ =>
      match rekey order e.1.node, rekey order e.2.node with
      | .ok a, .ok b => .ok ⟨a, some so, b, some d_⟩
      | .error er, _ => .error er
      | _, .error er => .error er

/-- `Hugr._to_serial()` -/
def toSerial (c : OpCodec Ω) (s : St Ω) : Except Err Doc :=
  match liftS (Store.hierarchyOrder s) with
  | .error e => .error e
  | .ok order =>
    match order.mapM (serialNode c s order) with
    | .error e => .error e
    | .ok ns =>
      match s.links.fwd.mapM (serialLink c s order) with
      | .error e => .error e
      | .ok es => .ok { nodes := ns.map (·.1), edges := es, metadata := some (ns.map (·.2)), encoder := none }

/-- `get_meta(idx)` of `_from_serial` -/
def getMeta (md : Option (List (Option Meta))) (idx : Nat) : Meta :=
  match md with
  | none => []
  | some l =>
    if l.isEmpty then [] else
    match l[idx]? with
    | some (some m) => m
    | _ => []

/-- the node loop of `_from_serial` -/
def loadNodes (c : OpCodec Ω) (md : Option (List (Option Meta))) :
    List Json → Nat → St Ω → Except Err (St Ω)
  | [], _, s => .ok s
  | j :: js, idx, s =>
    match liftO (c.dec j) with
    | .error e => .error e
    | .ok (op, parent) =>
      let m := getMeta md idx
      let isRoot := parent = (idx : Int)
      -- `Node(serial_node.root.parent)`: a negative parent index addresses `_nodes` from the end
      let par : Option Nat := if isRoot then none else some parent.toNat
      if parent < 0 ∧ ¬ isRoot then .error (.store .keyError) else
      match liftS (Store.addNodeRaw s op par none m) with
      | .error e => .error e
      | .ok (s, n) =>
        if n ≠ idx then .error .assertion else
        let s := if isRoot then { s with root := idx } else s
        loadNodes c md js (idx + 1) s

/-- `get_offset(node, offset, direction)` of `_from_serial` -/
def loadOffset (c : OpCodec Ω) (s : St Ω) (node : Nat) (off : Option Int) (incoming : Bool) : Except Err Int :=
  match liftS (Store.getNode s node) with
  | .error e => .error e
  | .ok d =>
    match liftO (c.orderOff d.op incoming) with
    | .error e => .error e
    | .ok order =>
      match off with
      | none => .ok (if order.isSome then -1 else 0)
      | some o => if order.map (fun k => (k : Int)) = some o then .ok (-1) else .ok o

def loadEdges (c : OpCodec Ω) : List Edge → St Ω → Except Err (St Ω)
  | [], s => .ok s
  | e :: es, s =>
    match loadOffset c s e.src e.srcOff false with
    | .error er => .error er
    | .ok so =>
      match loadOffset c s e.dst e.dstOff true with
      | .error er => .error er
      | .ok d_ =>
        match liftS (Store.addLink s (e.src, so) (e.dst, d_)) with
        | .error er => .error er
        | .ok s => loadEdges c es s

/-- `Hugr._from_serial(serial)` -/
def fromSerial (c : OpCodec Ω) (d : Doc) : Except Err (St Ω) :=
  if d.nodes.isEmpty then .error .assertion else
  let s0 : St Ω := { nodes := [], links := BiMap.empty, free := [], root := 0 }
  match loadNodes c d.metadata d.nodes 0 s0 with
  | .error e => .error e
  | .ok s => loadEdges c d.edges s

/-! ### the JSON document -/

def encMeta (m : Meta) : Json := .obj m

def encMetaEntry : Option Meta → Json
  | none => .null
  | some m => encMeta m

def encOff : Option Int → Json
  | none => .null
  | some o => .int o

def encEdge (e : Edge) : Json :=
  .arr [.arr [.int e.src, encOff e.srcOff], .arr [.int e.dst, encOff e.dstOff]]

/-- `SerialHugr.model_dump_json()` (as a JSON value) -/
def encDoc (d : Doc) : Json :=
  .obj [("version", .str "live"), ("nodes", .arr d.nodes), ("edges", .arr (d.edges.map encEdge)),
    ("metadata", match d.metadata with
      | none => .null
      | some l => .arr (l.map encMetaEntry)),
    ("encoder", match d.encoder with | none => .null | some e => .str e)]

def fld (k : String) : List (String × Json) → Option Json
  | [] => none
  | (l, v) :: rest => if l = k then some v else fld k rest

def decOff : Json → Except Err (Option Int)
  | .null => .ok none
  | .int i => .ok (some i)
  | _ => .error .validation

def decPort : Json → Except Err (Nat × Option Int)
  | .arr [.int n, o] =>
    if n < 0 then .error .validation   -- never produced; NodeIdx is an int, negative would index from the end
    else match decOff o with
      | .ok off => .ok (n.toNat, off)
      | .error e => .error e
  | _ => .error .validation

def decEdge : Json → Except Err Edge
  | .arr [a, b] =>
    match decPort a, decPort b with
    | .ok (s, so), .ok (d, d_) => .ok ⟨s, so, d, d_⟩
    | .error e, _ => .error e
    | _, .error e => .error e
  | _ => .error .validation

def decMetaEntry : Json → Except Err (Option Meta)
  | .null => .ok none
  | .obj kvs => .ok (some kvs)
  | _ => .error .validation

/-- `SerialHugr(**json)`: structural validation of the document (node payloads are validated by
    the operation codec when they are used). -/
def decDoc (j : Json) : Except Err Doc :=
  match j with
  | .obj kvs =>
    match fld "nodes" kvs, fld "edges" kvs with
    | some (.arr ns), some (.arr es) =>
      match es.mapM decEdge with
      | .error e => .error e
      | .ok edges =>
        let md : Except Err (Option (List (Option Meta))) :=
          match fld "metadata" kvs with
          | none | some .null => .ok none
          | some (.arr l) => (l.mapM decMetaEntry).map some
          | some _ => .error .validation
        match md with
        | .error e => .error e
        | .ok md =>
          match fld "encoder" kvs with
          | none | some .null => .ok { nodes := ns, edges, metadata := md, encoder := none }
          | some (.str e) => .ok { nodes := ns, edges, metadata := md, encoder := some e }
          | some _ => .error .validation
    | _, _ => .error .validation
  | _ => .error .validation

/-- `Hugr.to_json()` with the encoder string `enc` (`"hugr-py v…"`). -/
def toJson (c : OpCodec Ω) (enc : String) (s : St Ω) : Except Err Json :=
  match toSerial c s with
  | .error e => .error e
  | .ok d => .ok (encDoc { d with encoder := some enc })

/-- `Hugr.load_json(json)` -/
def loadJson (c : OpCodec Ω) (j : Json) : Except Err (St Ω) :=
  match decDoc j with
  | .error e => .error e
  | .ok d =>
    -- pydantic validates every node while building `SerialHugr`
    match d.nodes.mapM (fun n => liftO (c.dec n)) with
    | .error _ => .error .validation
    | .ok _ => fromSerial c d

end Serial
end HugrVerif
