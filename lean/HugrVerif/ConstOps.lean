/-
  The few lines of `hugr/ops.py` and `hugr/build/dfg.py` that connect a constant to its use
  (C14, last sentence).  Deliberately tiny and separate from the operation layer.

  * `ops.Const.port_kind` (ops.py:838-843): `OutPort(_, 0)` ↦ `ConstKind(self.val.type_())`, any
    other port raises `InvalidPort`.
  * `ops.LoadConst` (ops.py:849-887): `type_` is `_typ` (else `IncompleteOp`); `outer_signature` is
    `[] → [type_]`; `port_kind`: `InPort(_, 0)` ↦ `ConstKind(type_)`, `OutPort(_, 0)` ↦
    `ValueKind(type_)`, else `InvalidPort`.
  * `DfBase.load` (build/dfg.py:515-548) with a value: `add_const(value)` adds a node holding
    `Const(value)`; `load_op = LoadConst(const_op.val.type_())`; the new node is linked from
    `const.out_port()` = out-port 0 of the constant to in-port 0 of the load.
  Import-free apart from `Val`.
-/
import HugrVerif.Val

namespace HugrVerif.ConstOps
open HugrVerif

inductive Dir where
  | inp | out
deriving DecidableEq, Repr

/-- the two edge kinds that occur here (`tys.ConstKind`, `tys.ValueKind`) -/
inductive Kind where
  | const (t : Ty)
  | value (t : Ty)

inductive OpErr where
  | invalidPort
  | incompleteOp
deriving DecidableEq, Repr

/-- `Const(v).port_kind(port)` -/
def constPortKind (v : Value) : Dir → Int → Except OpErr Kind
  | .out, 0 => pure (.const v.typeOf)
  | _, _ => throw .invalidPort

/-- `LoadConst(_typ)` -/
structure LoadConst where
  typ : Option Ty

/-- `LoadConst.type_` -/
def LoadConst.type_ (op : LoadConst) : Except OpErr Ty :=
  match op.typ with
  | some t => pure t
  | none => throw .incompleteOp

/-- `LoadConst.outer_signature()` as (inputs, outputs) -/
def LoadConst.outerSig (op : LoadConst) : Except OpErr (List Ty × List Ty) := do
  pure ([], [← op.type_])

/-- `LoadConst.port_kind(port)` -/
def LoadConst.portKind (op : LoadConst) : Dir → Int → Except OpErr Kind
  | .inp, 0 => do pure (.const (← op.type_))
  | .out, 0 => do pure (.value (← op.type_))
  | _, _ => throw .invalidPort

/-- What `dfg.load(value)` adds: the constant node's operation, the load node's operation, and the
    link between them (source out-port offset, target in-port offset). -/
structure Loaded where
  const : Value
  load : LoadConst
  link : Int × Int

/-- `DfBase.load(value)` -/
def load (v : Value) : Loaded :=
  { const := v, load := { typ := some v.typeOf }, link := (0, 0) }

end HugrVerif.ConstOps
