import HugrVerif.Drive.Loop
import HugrVerif.Drive.Serial
import HugrVerif.Drive.Schema
open HugrVerif
def main : IO Unit := Drive.run fun stream p =>
  match stream with
  | "serial.history" => Drive.Serial.handleHistory p
  | "serial.doc" => Drive.Serial.handleDoc p
  | "schema.accepts" => Drive.Schema.handle p
  | _ => "!unknown-stream"
