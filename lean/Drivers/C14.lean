import HugrVerif.Drive.Loop
import HugrVerif.Drive.Val
open HugrVerif
def main : IO Unit := Drive.run fun stream p =>
  match Drive.Val.handle stream p with
  | some r => r
  | none => "!unknown-stream"
