import HugrVerif.Drive.Loop
import HugrVerif.Drive.Ops
open HugrVerif
def main : IO Unit := Drive.run fun stream p =>
  match Drive.Ops.handle stream p with
  | some r => r
  | none => "!unknown-stream"
