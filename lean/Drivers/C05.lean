import HugrVerif.Drive.Loop
import HugrVerif.Drive.Tys
import HugrVerif.Drive.Ops
import HugrVerif.Drive.Val
import HugrVerif.Drive.Serial
import HugrVerif.Drive.Schema
import HugrVerif.Drive.C05
open HugrVerif
def main : IO Unit := Drive.run fun stream p =>
  match Drive.C05.handle stream p with
  | some r => r
  | none =>
    match Drive.Tys.dispatch? stream p with
    | some r => r
    | none =>
      match Drive.Ops.handle stream p with
      | some r => r
      | none =>
        match Drive.Val.handle stream p with
        | some r => r
        | none =>
          match stream with
          | "serial.doc" => Drive.Serial.handleDoc p
          | "schema.accepts" => Drive.Schema.handle p
          | _ => "!unknown-stream"
