import HugrVerif.Drive.Loop
import HugrVerif.Drive.Envelope
open HugrVerif
def main : IO Unit := Drive.run fun stream p =>
  match stream with
  | "env.hdr" => Drive.Envelope.handleHdr p
  | "env.enc" => Drive.Envelope.handleEnc p
  | "env.pkg" => Drive.Envelope.handlePkg p
  | _ => "!unknown-stream"
