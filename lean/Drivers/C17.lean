import HugrVerif.Drive.Loop
import HugrVerif.Drive.Schema
open HugrVerif
def main : IO Unit := Drive.run fun stream p =>
  match stream with
  | "schema.accepts" => Drive.Schema.handle p
  | "schema.eval" => Drive.Schema.handleEval p
  | _ => "!unknown-stream"
