import HugrVerif.Drive.Loop
import HugrVerif.Drive.Validate
open HugrVerif
def main : IO Unit := Drive.run fun stream p =>
  match stream with
  | "doc.validate" => Drive.Validate.handleDoc p
  | _ => "!unknown-stream"
