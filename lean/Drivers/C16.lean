import HugrVerif.Drive.Loop
import HugrVerif.Drive.Handle
open HugrVerif
def main : IO Unit := Drive.run fun stream p =>
  match stream with
  | "pyslice" => Drive.Handle.handlePySlice p
  | "pyitem" => Drive.Handle.handlePyItem p
  | "handle.get" => Drive.Handle.handleGet p
  | "handle.ports" => Drive.Handle.handlePorts p
  | "handle.build" => Drive.Handle.handleBuild p
  | _ => "!unknown-stream"
