import HugrVerif.Drive.Loop
import HugrVerif.Drive.Export
open HugrVerif
def main : IO Unit := Drive.run fun stream p =>
  match stream with
  | "export.run" => Drive.Export.handleRun p
  | _ => "!unknown-stream"
