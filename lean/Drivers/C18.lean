import HugrVerif.Drive.Loop
import HugrVerif.Drive.BiMap
open HugrVerif
def main : IO Unit := Drive.run fun stream p =>
  match stream with
  | "bimap.run" => Drive.BiMap.handle p
  | _ => "!unknown-stream"
