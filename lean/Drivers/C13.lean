import HugrVerif.Drive.Loop
import HugrVerif.Drive.Build
open HugrVerif
def main : IO Unit := Drive.run fun stream p =>
  match stream with
  | "build.run" => Drive.Build.handleRun p
  | _ => "!unknown-stream"
