import HugrVerif.Drive.Loop
import HugrVerif.Drive.Tys
open HugrVerif
def main : IO Unit := Drive.run fun stream p =>
  match Drive.Tys.dispatch? stream p with
  | some r => r
  | none => "!unknown-stream"
