import HugrVerif.Drive.Loop
import HugrVerif.Drive.Qsys
open HugrVerif
def main : IO Unit := Drive.run fun stream p =>
  match stream with
  | "qsys.result" => Drive.Qsys.handle p
  | _ => "!unknown-stream"
