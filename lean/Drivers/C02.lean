import HugrVerif.Drive.Loop
import HugrVerif.Drive.Serial
open HugrVerif
def main : IO Unit := Drive.run fun stream p =>
  match stream with
  | "serial.history" => Drive.Serial.handleHistory p
  | "serial.doc" => Drive.Serial.handleDoc p
  | _ => "!unknown-stream"
