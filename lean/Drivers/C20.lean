import HugrVerif.Drive.Loop
import HugrVerif.Drive.Render
open HugrVerif
def main : IO Unit := Drive.run fun stream p =>
  match stream with
  | "render.run" => Drive.Render.handle p
  | _ => "!unknown-stream"
