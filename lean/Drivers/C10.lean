import HugrVerif.Drive.Loop
import HugrVerif.Drive.Ext
open HugrVerif
def main : IO Unit := Drive.run fun stream p =>
  match Drive.Ext.handle stream p with
  | some r => r
  | none => "!unknown-stream"
