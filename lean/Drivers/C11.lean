import HugrVerif.Drive.Loop
import HugrVerif.Drive.Resolve
open HugrVerif
def main : IO Unit := Drive.run fun stream p =>
  match Drive.Resolve.handle stream p with
  | some r => r
  | none => "!unknown-stream"
