import HugrVerif.Drive.Loop
import HugrVerif.Drive.Store
open HugrVerif
def main : IO Unit := Drive.run fun stream p =>
  match stream with
  | "store.run" => Drive.Store.handle p
  | _ => "!unknown-stream"
