import HugrVerif.AuditCmd
import HugrVerif.Props.C07
#audit_module HugrVerif.Props.C07
