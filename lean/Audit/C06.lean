import HugrVerif.AuditCmd
import HugrVerif.Props.C06
#audit_module HugrVerif.Props.C06
