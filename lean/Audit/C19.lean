import HugrVerif.AuditCmd
import HugrVerif.Props.C19
#audit_module HugrVerif.Props.C19
