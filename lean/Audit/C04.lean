import HugrVerif.AuditCmd
import HugrVerif.Props.C04
#audit_module HugrVerif.Props.C04
