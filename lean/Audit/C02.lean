import HugrVerif.AuditCmd
import HugrVerif.Props.C02
#audit_module HugrVerif.Props.C02
