import HugrVerif.AuditCmd
import HugrVerif.Props.C12
#audit_module HugrVerif.Props.C12
