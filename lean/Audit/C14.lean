import HugrVerif.AuditCmd
import HugrVerif.Props.C14
#audit_module HugrVerif.Props.C14
