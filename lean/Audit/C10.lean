import HugrVerif.AuditCmd
import HugrVerif.Props.C10
#audit_module HugrVerif.Props.C10
