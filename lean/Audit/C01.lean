import HugrVerif.AuditCmd
import HugrVerif.Props.C01
#audit_module HugrVerif.Props.C01
