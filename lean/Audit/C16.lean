import HugrVerif.AuditCmd
import HugrVerif.Props.C16
#audit_module HugrVerif.Props.C16
