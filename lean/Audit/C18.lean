import HugrVerif.AuditCmd
import HugrVerif.Props.C18
#audit_module HugrVerif.Props.C18
