import HugrVerif.AuditCmd
import HugrVerif.Props.C13
#audit_module HugrVerif.Props.C13
