import HugrVerif.AuditCmd
import HugrVerif.Props.C08
#audit_module HugrVerif.Props.C08
