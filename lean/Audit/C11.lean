import HugrVerif.AuditCmd
import HugrVerif.Props.C11
#audit_module HugrVerif.Props.C11
