import HugrVerif.AuditCmd
import HugrVerif.Props.C09
#audit_module HugrVerif.Props.C09
