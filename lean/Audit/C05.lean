import HugrVerif.AuditCmd
import HugrVerif.Props.C05
#audit_module HugrVerif.Props.C05
