import HugrVerif.AuditCmd
import HugrVerif.Props.C03
#audit_module HugrVerif.Props.C03
