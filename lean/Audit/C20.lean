import HugrVerif.AuditCmd
import HugrVerif.Props.C20
#audit_module HugrVerif.Props.C20
