import HugrVerif.AuditCmd
import HugrVerif.Props.C15
#audit_module HugrVerif.Props.C15
