import HugrVerif.AuditCmd
import HugrVerif.Props.C17
#audit_module HugrVerif.Props.C17
